package main

func init() {
	register(&PropSpec{
		ID: "C08",
		Explain: "Decides the ordering mechanism of the static parser for every feed and every row permutation: " +
			"(ORDER) every trip's StopTimes is sorted by an unconditional sort.Slice, in a loop over the id map filled from all trips, after the row loop; the rows of each shape are sorted before its points are built; shapes are sorted by id (G6: the map key); " +
			"(CMP) each comparator indexes the very slice being sorted with its i, j and compares one key (StopSequence / ShapePtSequence / ID) with <; " +
			"file-order collections (agencies, routes, stops, transfers, trips, frequencies, added/removed dates) are built only by appending one element at the end and are never sorted; " +
			"(PREALLOC) a trip's StopTimes is replaced by a pre-allocated slice only while it is still empty, so interleaved rows lose nothing -- also when the store sits in a closure or helper that the row loop calls (any store into a slice field of an entity that outlives the row must extend the field's own value or be guarded by its emptiness); (CACHE) the current-trip cache changes pointer and key together, from one lookup; (KEY) a string map key put together from several variable parts has a constant separator between them (otherwise two rows can collide and row order decides which survives). " +
			"(PHASE) no collection of the result is sorted in a later phase of the file table than one in which addresses of its elements were kept (the sort would move other entities under those pointers). Not decided: sort.Slice itself; equal sequence numbers (excluded by the property). The row layer hands each parser the record of the current row only (no cells of an earlier row), and integer parses keep sign and width.",
		Rules: []Rule{
			{Name: "ROWSTATE", Doc: "nothing recorded about one row (its missing keys) is still there when the next row is current: whether a row is kept does not depend on the row before it", MinInstances: 1, Run: runRowState},
			{Name: "A4", Doc: "the row a parser reads is the row of the file (no cells of an earlier row: what a row yields does not depend on the rows before it)", MinInstances: 1, Run: func(c *Ctx) { runReaderDiscipline(c); csvSideObligations(c) }},
			{Name: "SCAN", Doc: "a loop that does something for each element is not left early (no break out of a processing loop)", MinInstances: 1, Run: func(c *Ctx) { runFullScan(c, staticParseFns(c), "SCAN") }},
			{Name: "NUM", Doc: "sequence numbers are parsed at the width they are stored at (strconv rejects what does not fit): distinct sequence numbers stay distinct sort keys", MinInstances: 2, Run: func(c *Ctx) { runNumericDecoders(c, staticParseFns(c), "NUM") }},
			{Name: "REJECT", Doc: "a row is kept or rejected for what it says itself: no test that decides a rejection reads a loop-carried variable or a collection the row loop fills (a same-as-previous-row or already-seen guard loses valid rows of interleaved trips and shapes)", MinInstances: 7, Run: runRejectInert},
			{Name: "ORDER", Doc: "per-group sorts, comparators, tail appends, pre-allocation guard, cache coherence", MinInstances: 8, Run: runStaticOrder},
			{Name: "G6", Doc: "map-built output sorted by key", MinInstances: 2, Run: func(c *Ctx) { runG6(c, staticParseFns(c)) }},
			{Name: "PHASE", Doc: "a result collection is not sorted after addresses of its elements were kept", MinInstances: 1, Run: func(c *Ctx) { runSortAfterAddress(c, "PHASE") }},
			{Name: "KEY", Doc: "a map key built from several parts keeps them apart (a colliding key makes which row survives depend on row order)", MinInstances: 1, Run: func(c *Ctx) { runCompositeKeys(c, "KEY") }},
		},
	})
}
