package main

// E5 / G7: who writes shared memory.  Field-based, context- and flow-insensitive
// may-taint analysis over the module's SSA.  G8: reachability of nondeterminism
// sources.

import (
	"fmt"
	"go/token"
	"go/types"
	"sort"
	"strings"

	"golang.org/x/tools/go/ssa"
)

type taint uint8

const (
	TOpts    taint = 1 << iota // reachable from an options parameter (includes the extension object)
	TContent                   // the input byte slice
	TGlobal                    // a package-level variable
	TRecv                      // a result object handed to an accessor (receiver)
)

func (t taint) String() string {
	var s []string
	if t&TOpts != 0 {
		s = append(s, "options/extension object")
	}
	if t&TContent != 0 {
		s = append(s, "input bytes")
	}
	if t&TGlobal != 0 {
		s = append(s, "package-level variable")
	}
	if t&TRecv != 0 {
		s = append(s, "receiver/result object")
	}
	return strings.Join(s, "+")
}

func hasPointers(t types.Type) bool {
	return hasPointersD(t, 0)
}
func hasPointersD(t types.Type, d int) bool {
	if d > 6 {
		return true
	}
	switch u := t.Underlying().(type) {
	case *types.Pointer, *types.Slice, *types.Map, *types.Chan, *types.Signature, *types.Interface:
		return true
	case *types.Struct:
		for i := 0; i < u.NumFields(); i++ {
			if hasPointersD(u.Field(i).Type(), d+1) {
				return true
			}
		}
		return false
	case *types.Array:
		return hasPointersD(u.Elem(), d+1)
	case *types.Tuple:
		for i := 0; i < u.Len(); i++ {
			if hasPointersD(u.At(i).Type(), d+1) {
				return true
			}
		}
		return false
	}
	return false
}

type taintRoot struct {
	fn    *ssa.Function
	param int // index into fn.Params
	t     taint
}

type taintEngine struct {
	p        *Program
	fns      []*ssa.Function
	inScope  map[*ssa.Function]bool
	val      map[ssa.Value]taint
	held     map[string]taint // cell class -> taint of the pointers stored there
	allocHld map[ssa.Value]taint
	fvBind   map[*ssa.FreeVar][]ssa.Value
	rets     map[*ssa.Function][]taint
	changed  bool
	unknown  map[string]bool
}

func (e *taintEngine) set(v ssa.Value, t taint) {
	if t == 0 {
		return
	}
	if !hasPointers(v.Type()) {
		return
	}
	if e.val[v]|t != e.val[v] {
		e.val[v] |= t
		e.changed = true
	}
}

func (e *taintEngine) hold(key string, t taint) {
	if t == 0 {
		return
	}
	if e.held[key]|t != e.held[key] {
		e.held[key] |= t
		e.changed = true
	}
}

func (e *taintEngine) holdAlloc(a ssa.Value, t taint) {
	if t == 0 {
		return
	}
	if e.allocHld[a]|t != e.allocHld[a] {
		e.allocHld[a] |= t
		e.changed = true
	}
}

// cellKey names the memory-cell class an address denotes (field-based).
func cellKey(addr ssa.Value) (key string, alloc ssa.Value) {
	switch a := addr.(type) {
	case *ssa.Alloc:
		return "", a
	case *ssa.FieldAddr:
		return "field:" + typeName(a.X.Type()) + "." + fieldName(a.X.Type(), a.Field), nil
	case *ssa.IndexAddr:
		return "elem:" + deref(a.Type()).String(), nil
	case *ssa.Global:
		return "global:" + a.String(), nil
	}
	return "ptr:" + deref(addr.Type()).String(), nil
}

func (e *taintEngine) tv(v ssa.Value) taint {
	switch v.(type) {
	case *ssa.Global:
		return TGlobal
	case *ssa.Const, *ssa.Function, *ssa.Builtin:
		return 0
	}
	return e.val[v]
}

func (e *taintEngine) heldAt(addr ssa.Value) taint {
	return e.heldAtD(addr, map[ssa.Value]bool{})
}

func (e *taintEngine) heldAtD(addr ssa.Value, seen map[ssa.Value]bool) taint {
	if seen[addr] {
		return 0
	}
	seen[addr] = true
	switch a := addr.(type) {
	case *ssa.FreeVar:
		var t taint
		for _, b := range e.fvBind[a] {
			t |= e.heldAtD(b, seen)
		}
		return t
	case *ssa.Phi:
		var t taint
		for _, ed := range a.Edges {
			if ed != addr {
				t |= e.heldAtD(ed, seen)
			}
		}
		return t
	}
	key, alloc := cellKey(addr)
	if alloc != nil {
		return e.allocHld[alloc]
	}
	t := e.held[key]
	// a whole-struct (or whole-array) store into the enclosing object also fills this cell
	switch a := addr.(type) {
	case *ssa.FieldAddr:
		t |= e.heldAtD(a.X, seen)
	case *ssa.IndexAddr:
		if _, isPtr := a.X.Type().Underlying().(*types.Pointer); isPtr {
			t |= e.heldAtD(a.X, seen)
		}
	}
	return t
}

func (e *taintEngine) holdAt(addr ssa.Value, t taint) {
	e.holdAtD(addr, t, map[ssa.Value]bool{})
}

func (e *taintEngine) holdAtD(addr ssa.Value, t taint, seen map[ssa.Value]bool) {
	if seen[addr] || t == 0 {
		return
	}
	seen[addr] = true
	switch a := addr.(type) {
	case *ssa.FreeVar:
		for _, b := range e.fvBind[a] {
			e.holdAtD(b, t, seen)
		}
		return
	case *ssa.Phi:
		for _, ed := range a.Edges {
			e.holdAtD(ed, t, seen)
		}
		return
	}
	key, alloc := cellKey(addr)
	if alloc != nil {
		e.holdAlloc(alloc, t)
		return
	}
	e.hold(key, t)
}

func (e *taintEngine) step(fn *ssa.Function) {
	for _, b := range fn.Blocks {
		for _, in := range b.Instrs {
			switch x := in.(type) {
			case *ssa.FieldAddr:
				e.set(x, e.tv(x.X))
			case *ssa.IndexAddr:
				e.set(x, e.tv(x.X))
			case *ssa.Field:
				e.set(x, e.tv(x.X))
			case *ssa.Index:
				e.set(x, e.tv(x.X))
			case *ssa.Slice:
				e.set(x, e.tv(x.X))
			case *ssa.ChangeType:
				e.set(x, e.tv(x.X))
			case *ssa.Convert:
				e.set(x, e.tv(x.X))
			case *ssa.MakeInterface:
				e.set(x, e.tv(x.X))
			case *ssa.ChangeInterface:
				e.set(x, e.tv(x.X))
			case *ssa.SliceToArrayPointer:
				e.set(x, e.tv(x.X))
			case *ssa.TypeAssert:
				e.set(x, e.tv(x.X))
			case *ssa.Extract:
				if call, ok := x.Tuple.(*ssa.Call); ok {
					e.set(x, e.callResult(call, x.Index))
				} else {
					e.set(x, e.tv(x.Tuple))
				}
			case *ssa.Range:
				e.set(x, e.tv(x.X)|e.held["mapval:"+x.X.Type().Underlying().String()])
			case *ssa.Next:
				e.set(x, e.tv(x.Iter))
			case *ssa.Lookup:
				e.set(x, e.tv(x.X)|e.held["mapval:"+x.X.Type().Underlying().String()])
			case *ssa.Phi:
				var t taint
				for _, ed := range x.Edges {
					t |= e.tv(ed)
				}
				e.set(x, t)
			case *ssa.UnOp:
				if x.Op == token.MUL {
					e.set(x, e.tv(x.X)|e.heldAt(x.X))
				}
			case *ssa.Store:
				if hasPointers(x.Val.Type()) {
					e.holdAt(x.Addr, e.tv(x.Val))
				}
			case *ssa.MapUpdate:
				t := taint(0)
				if hasPointers(x.Value.Type()) {
					t |= e.tv(x.Value)
				}
				if hasPointers(x.Key.Type()) {
					t |= e.tv(x.Key)
				}
				e.hold("mapval:"+x.Map.Type().Underlying().String(), t)
			case *ssa.MakeClosure:
				cl := x.Fn.(*ssa.Function)
				for i, bnd := range x.Bindings {
					fv := cl.FreeVars[i]
					found := false
					for _, old := range e.fvBind[fv] {
						if old == bnd {
							found = true
						}
					}
					if !found {
						e.fvBind[fv] = append(e.fvBind[fv], bnd)
						e.changed = true
					}
					e.set(fv, e.tv(bnd))
				}
			case *ssa.Return:
				r := e.rets[fn]
				if r == nil {
					r = make([]taint, len(x.Results))
					e.rets[fn] = r
				}
				for i, res := range x.Results {
					if !hasPointers(res.Type()) {
						continue
					}
					if t := e.tv(res); r[i]|t != r[i] {
						r[i] |= t
						e.changed = true
					}
				}
			case ssa.CallInstruction:
				e.call(x)
			}
		}
	}
}

func (e *taintEngine) callResult(call ssa.CallInstruction, idx int) taint {
	cc := call.Common()
	if b, ok := cc.Value.(*ssa.Builtin); ok {
		switch b.Name() {
		case "append":
			return e.tv(cc.Args[0]) | e.tv(cc.Args[1])
		}
		return 0
	}
	var t taint
	for _, callee := range e.p.Callees(call) {
		if e.p.fnIndex[callee] {
			if r := e.rets[callee]; r != nil && idx < len(r) {
				t |= r[idx]
			}
			continue
		}
		name := callee.String()
		if cc.IsInvoke() {
			name = calleeName(call)
		}
		t |= e.externalResult(name, call)
	}
	if len(e.p.Callees(call)) == 0 {
		t |= e.externalResult(calleeName(call), call)
	}
	return t
}

func (e *taintEngine) externalResult(name string, call ssa.CallInstruction) taint {
	args := allArgs(call)
	info, ok := externals[extName(name)]
	var t taint
	if !ok {
		for _, a := range args {
			t |= e.tv(a)
		}
		return t
	}
	for _, i := range info.Aliases {
		if i < len(args) {
			t |= e.tv(args[i])
		}
	}
	return t
}

func (e *taintEngine) call(call ssa.CallInstruction) {
	cc := call.Common()
	if v := call.Value(); v != nil {
		if _, isTuple := v.Type().(*types.Tuple); !isTuple {
			e.set(v, e.callResult(call, 0))
		}
	}
	if _, ok := cc.Value.(*ssa.Builtin); ok {
		return
	}
	args := allArgs(call)
	for _, callee := range e.p.Callees(call) {
		if !e.p.fnIndex[callee] {
			continue
		}
		// align arguments with callee parameters
		params := callee.Params
		if len(params) != len(args) {
			// bound method closures / wrappers may differ; align from the end
			off := len(params) - len(args)
			if off < 0 {
				continue
			}
			params = params[off:]
		}
		for i, a := range args {
			e.set(params[i], e.tv(a))
		}
	}
}

func newTaint(p *Program, roots []taintRoot) *taintEngine {
	e := &taintEngine{p: p, val: map[ssa.Value]taint{}, held: map[string]taint{}, allocHld: map[ssa.Value]taint{},
		fvBind: map[*ssa.FreeVar][]ssa.Value{}, rets: map[*ssa.Function][]taint{}, unknown: map[string]bool{}}
	for _, r := range roots {
		if r.param < len(r.fn.Params) {
			e.val[r.fn.Params[r.param]] |= r.t
		}
	}
	// fixpoint over every module function (the analysis is whole-module; scope only restricts reporting)
	for iter := 0; iter < 100; iter++ {
		e.changed = false
		for _, fn := range p.ModFns {
			e.step(fn)
		}
		if !e.changed {
			break
		}
	}
	return e
}

type sink struct {
	fn     *ssa.Function
	in     ssa.Instruction
	what   string // construct
	t      taint
	detail string
	undec  bool
}

// sinks enumerates every write site in fns with the taint of the written address.
func (e *taintEngine) sinks(fns []*ssa.Function) []sink {
	var out []sink
	for _, fn := range fns {
		for _, b := range fn.Blocks {
			for _, in := range b.Instrs {
				switch x := in.(type) {
				case *ssa.Store:
					out = append(out, sink{fn: fn, in: in, what: "store " + describeAddr(x.Addr), t: e.tv(x.Addr)})
				case *ssa.MapUpdate:
					out = append(out, sink{fn: fn, in: in, what: "mapupdate " + describeAddr(x.Map), t: e.tv(x.Map)})
				case *ssa.Go:
					out = append(out, sink{fn: fn, in: in, what: "go statement", t: 0xff, detail: "goroutine started inside a parse/accessor: the no-concurrency-inside argument no longer applies"})
				case ssa.CallInstruction:
					cc := x.Common()
					if bi, ok := cc.Value.(*ssa.Builtin); ok {
						switch bi.Name() {
						case "append":
							out = append(out, sink{fn: fn, in: in, what: "append " + describeAddr(cc.Args[0]), t: e.tv(cc.Args[0]), detail: "append may write into spare capacity of the shared backing array"})
						case "copy", "delete", "clear":
							out = append(out, sink{fn: fn, in: in, what: bi.Name() + " " + describeAddr(cc.Args[0]), t: e.tv(cc.Args[0])})
						}
						continue
					}
					args := allArgs(x)
					callees := e.p.Callees(x)
					names := map[string]bool{}
					if len(callees) == 0 {
						if n := calleeName(x); n != "" {
							names[n] = true
						} else {
							// dynamic call with no resolved callee
							var t taint
							for _, a := range args {
								t |= e.tv(a)
							}
							if t != 0 {
								out = append(out, sink{fn: fn, in: in, what: "call of unresolved function value", t: t, undec: true, detail: "callee of a dynamic call could not be resolved and receives shared memory"})
							}
						}
					}
					for _, cal := range callees {
						if e.p.fnIndex[cal] {
							continue
						}
						if cc.IsInvoke() {
							names[calleeName(x)] = true
						} else {
							names[cal.String()] = true
						}
					}
					var ns []string
					for n := range names {
						ns = append(ns, n)
					}
					sort.Strings(ns)
					for _, n := range ns {
						info, ok := externals[extName(n)]
						if !ok {
							if strings.HasPrefix(n, "sync.") || strings.HasPrefix(n, "(*sync.") || strings.HasPrefix(n, "sync/atomic.") {
								out = append(out, sink{fn: fn, in: in, what: "call " + n, t: 0xff, undec: true, detail: "synchronisation primitive used inside a parse/accessor: review the concurrency argument"})
								continue
							}
							var t taint
							for _, a := range args {
								if hasPointers(a.Type()) {
									t |= e.tv(a)
								}
							}
							if t != 0 {
								out = append(out, sink{fn: fn, in: in, what: "call " + n, t: t, undec: true, detail: "external callee " + n + " is not classified (externals.go) and receives shared memory"})
							}
							continue
						}
						for _, w := range info.Writes {
							if w < len(args) {
								out = append(out, sink{fn: fn, in: in, what: fmt.Sprintf("call %s writes arg %d (%s)", n, w, describeAddr(args[w])), t: e.tv(args[w])})
							}
						}
					}
				}
			}
		}
	}
	return out
}

func describeAddr(v ssa.Value) string {
	switch x := v.(type) {
	case *ssa.FieldAddr:
		return typeName(x.X.Type()) + "." + fieldName(x.X.Type(), x.Field)
	case *ssa.IndexAddr:
		return describeAddr(x.X) + "[]"
	case *ssa.Alloc:
		return "local " + x.Comment
	case *ssa.Global:
		return "global " + x.Name()
	case *ssa.UnOp:
		if x.Op == token.MUL {
			return describeAddr(x.X)
		}
	case *ssa.MakeInterface:
		return describeAddr(x.X)
	case *ssa.Parameter:
		return "param " + x.Name()
	case *ssa.FreeVar:
		return "captured " + x.Name()
	case *ssa.Phi:
		return "var " + x.Comment
	case *ssa.Extract:
		return "value of " + describeAddr(x.Tuple)
	case *ssa.Lookup:
		return describeAddr(x.X) + "[k]"
	case *ssa.Slice:
		return describeAddr(x.X)
	case *ssa.Field:
		return typeName(x.X.Type()) + "." + fieldName(x.X.Type(), x.Field)
	case *ssa.Call:
		if n := calleeName(x); n != "" {
			return "result of " + trimMod(n)
		}
	}
	return typeName(v.Type())
}

// runG7 reports, for every write site in scope, whether the written memory can be
// shared memory of the kinds in mask.
func runG7(c *Ctx, rule string, roots []taintRoot, fns []*ssa.Function, reach map[*ssa.Function][]*ssa.Function, mask taint, maskDoc string) {
	e := newTaint(c.P, roots)
	sinks := e.sinks(fns)
	c.Stats[rule+" write sites classified"] += len(sinks)
	c.Stats[rule+" functions"] += len(fns)
	agg := map[string]*Obligation{}
	for _, s := range sinks {
		fname := shortName(s.fn)
		key := fname + "|" + s.what
		bad := s.t&mask != 0
		if o, ok := agg[key]; ok {
			// several textual occurrences of the same construct: fail if any fails
			if bad && o.Status == Proved {
				o.Status = Violated
				o.StatusS = o.Status.String()
				o.Pos = c.P.ipos(s.in)
				o.Detail = fmt.Sprintf("writes memory reachable from %s (%s); %s", (s.t & mask).String(), maskDoc, s.detail)
			}
			continue
		}
		var o *Obligation
		if bad {
			det := fmt.Sprintf("%s writes memory reachable from: %s. %s %s", instrString(s.in), (s.t & mask).String(), maskDoc, s.detail)
			if s.undec {
				o = c.Undecided(rule, fname, s.what, c.P.ipos(s.in), det)
			} else {
				o = c.Violated(rule, fname, s.what, c.P.ipos(s.in), det)
			}
			o.Path = pathString(reach[s.fn])
		} else {
			o = c.Proved(rule, fname, s.what, c.P.ipos(s.in), "written address is not derived from any shared root (E5 taint)")
		}
		agg[key] = o
	}
}

// ------------------------------------------------------------------ G8

func runG8(c *Ctx, roots []*ssa.Function) {
	for _, r := range roots {
		reach := c.P.Reachable(r)
		var bad []string
		n := 0
		for fn, path := range reach {
			n++
			if c.P.fnIndex[fn] {
				continue
			}
			if nondetCallee(fn.String()) {
				bad = append(bad, fn.String()+" via "+pathString(path))
			}
		}
		// package-level variables of the standard library whose value depends on the process environment
		for fn, path := range reach {
			if !c.P.fnIndex[fn] {
				continue
			}
			for _, b := range fn.Blocks {
				for _, in := range b.Instrs {
					for _, op := range in.Operands(nil) {
						if g, ok := (*op).(*ssa.Global); ok && g.Pkg != nil && envGlobals[g.Pkg.Pkg.Path()+"."+g.Name()] {
							bad = append(bad, "reads "+g.Pkg.Pkg.Path()+"."+g.Name()+" (depends on the process environment) in "+shortName(fn)+" via "+pathString(path))
						}
					}
				}
			}
		}
		sort.Strings(bad)
		c.Stats["G8 functions reachable from "+shortName(r)] = n
		if len(bad) > 0 {
			c.Violated("G8", shortName(r), "reaches clock/randomness/environment", c.P.pos(r.Pos()), strings.Join(bad, "; "))
		} else {
			c.Proved("G8", shortName(r), "reaches clock/randomness/environment", c.P.pos(r.Pos()), fmt.Sprintf("none of time.Now/Since, math/rand, crypto/rand, os.Getenv/Getpid/Hostname among %d reachable functions", n))
		}
	}
}

// envGlobals: library variables that differ from process to process for the same input.
var envGlobals = map[string]bool{"time.Local": true, "os.Args": true, "os.Stdin": true}
