package main

// E7: flag-directed phi resolution.  C10 fill-in and wheelchair inheritance.

import (
	"fmt"
	"go/constant"
	"go/token"
	"sort"
	"strings"

	"golang.org/x/tools/go/ssa"
)

// flagPaths enumerates the acyclic CFG paths from block `from` to instruction `to`
// that are consistent with a valuation of boolean flag values, and reports what
// `resolve(path)` yields on each.
type pathEnv struct {
	pred map[*ssa.BasicBlock]*ssa.BasicBlock
}

func (pe pathEnv) resolvePhi(v ssa.Value) ssa.Value {
	for i := 0; i < 30; i++ {
		phi, ok := v.(*ssa.Phi)
		if !ok {
			return v
		}
		pred, ok := pe.pred[phi.Block()]
		if !ok || pred == nil {
			return v
		}
		found := false
		for j, p := range phi.Block().Preds {
			if p == pred {
				v = phi.Edges[j]
				found = true
				break
			}
		}
		if !found {
			return v
		}
	}
	return v
}

func evalFlagCond(v ssa.Value, flags map[ssa.Value]bool, pe pathEnv) (val bool, known bool) {
	v = pe.resolvePhi(v)
	if b, ok := flags[v]; ok {
		return b, true
	}
	switch x := v.(type) {
	case *ssa.UnOp:
		if x.Op == token.NOT {
			b, ok := evalFlagCond(x.X, flags, pe)
			return !b, ok
		}
	case *ssa.Const:
		if b, ok := constBool(x); ok {
			return b, true
		}
	}
	return false, false
}

// walkFlagPaths calls visit(pe) for every acyclic path from `start` (entered from pred0) to block `target`
// consistent with flags. Returns the number of paths.
func walkFlagPaths(start, pred0, target *ssa.BasicBlock, flags map[ssa.Value]bool, visit func(pe pathEnv)) int {
	n := 0
	var rec func(b *ssa.BasicBlock, pe pathEnv, onPath map[*ssa.BasicBlock]bool, depth int)
	rec = func(b *ssa.BasicBlock, pe pathEnv, onPath map[*ssa.BasicBlock]bool, depth int) {
		if n > 20000 || depth > 200 {
			return
		}
		if b == target {
			n++
			visit(pe)
			return
		}
		if onPath[b] {
			return
		}
		onPath[b] = true
		defer delete(onPath, b)
		next := func(s *ssa.BasicBlock) {
			np := pathEnv{pred: map[*ssa.BasicBlock]*ssa.BasicBlock{}}
			for k, v := range pe.pred {
				np.pred[k] = v
			}
			np.pred[s] = b
			rec(s, np, onPath, depth+1)
		}
		switch last := b.Instrs[len(b.Instrs)-1].(type) {
		case *ssa.If:
			if val, known := evalFlagCond(last.Cond, flags, pe); known {
				if val {
					next(b.Succs[0])
				} else {
					next(b.Succs[1])
				}
			} else {
				next(b.Succs[0])
				next(b.Succs[1])
			}
		case *ssa.Jump:
			next(b.Succs[0])
		}
	}
	pe := pathEnv{pred: map[*ssa.BasicBlock]*ssa.BasicBlock{start: pred0}}
	rec(start, pe, map[*ssa.BasicBlock]bool{}, 0)
	return n
}

func runFillIn(c *Ctx) {
	p := c.P
	fn := c.anchor("gtfs:parseScheduledStopTimes")
	dec := c.anchor("gtfs:parseGtfsTimeToDuration")
	if fn == nil || dec == nil {
		return
	}
	fname := shortName(fn)
	blankIsInvalid(c, dec)
	timeRejections(c, dec)
	type side struct {
		call     *ssa.Call
		val, flg ssa.Value
	}
	sides := map[string]*side{}
	for _, b := range fn.Blocks {
		for _, in := range b.Instrs {
			call, ok := in.(*ssa.Call)
			if !ok || staticCallee(call) != dec {
				continue
			}
			rd, ok := call.Call.Args[0].(*ssa.Call)
			if !ok {
				continue
			}
			ci, _ := resolveColumn(rd.Call.Args[0], 0)
			if ci == nil {
				continue
			}
			s := &side{call: call}
			for _, r := range *call.Referrers() {
				if e, ok := r.(*ssa.Extract); ok {
					if e.Index == 0 {
						s.val = e
					} else {
						s.flg = e
					}
				}
			}
			sides[ci.name] = s
		}
	}
	arr, dep := sides["arrival_time"], sides["departure_time"]
	if arr != nil && dep != nil && arr.val != nil && dep.val != nil {
		// the decoded values are handed on to a helper that applies the rule
		for _, v := range []ssa.Value{arr.val, dep.val} {
			for _, r := range *v.Referrers() {
				if hc, isCall := r.(*ssa.Call); isCall {
					if h := staticCallee(hc); h != nil && h != dec && p.isModuleFn(h) && h.Signature.Results().Len() >= 2 {
						if fillViaHelper(c, fn, dec) {
							return
						}
					}
				}
			}
		}
	}
	if arr == nil || dep == nil || arr.flg == nil || dep.flg == nil || arr.val == nil || dep.val == nil {
		if fillViaHelper(c, fn, dec) {
			return
		}
		c.Undecided("FILL", fname, "time columns", p.pos(fn.Pos()), "arrival_time/departure_time are not decoded by parseGtfsTimeToDuration with their validity flags in the recognised shape")
		return
	}
	// stores into ScheduledStopTime.ArrivalTime / DepartureTime
	stores := map[string]*ssa.Store{}
	for _, b := range fn.Blocks {
		for _, in := range b.Instrs {
			st, ok := in.(*ssa.Store)
			if !ok {
				continue
			}
			fa, ok := st.Addr.(*ssa.FieldAddr)
			if !ok || typeName(fa.X.Type()) != "gtfs.ScheduledStopTime" {
				continue
			}
			f := fieldName(fa.X.Type(), fa.Field)
			if f == "ArrivalTime" || f == "DepartureTime" {
				if stores[f] != nil {
					c.Undecided("FILL", fname, "several stores to "+f, p.ipos(st), "more than one store to ScheduledStopTime."+f)
				}
				stores[f] = st
			}
		}
	}
	if stores["ArrivalTime"] == nil || stores["DepartureTime"] == nil {
		c.Undecided("FILL", fname, "time stores", p.pos(fn.Pos()), "stores to ScheduledStopTime.ArrivalTime/DepartureTime not found")
		return
	}
	later := dep.call
	if dominatesInstr(dep.call, arr.call) {
		later = arr.call
	}
	name := func(v ssa.Value) string {
		switch v {
		case arr.val:
			return "arrival_time value"
		case dep.val:
			return "departure_time value"
		}
		if k, ok := v.(*ssa.Const); ok {
			return "constant " + k.String()
		}
		return "other (" + canon(v) + ")"
	}
	for _, val := range []struct {
		a, d bool
	}{{true, true}, {true, false}, {false, true}, {false, false}} {
		flags := map[ssa.Value]bool{arr.flg: val.a, dep.flg: val.d}
		label := fmt.Sprintf("arrival valid=%v, departure valid=%v", val.a, val.d)
		for _, field := range []string{"ArrivalTime", "DepartureTime"} {
			st := stores[field]
			got := map[string]bool{}
			// start from the block of the later decode call, entered from its (unique) predecessor chain; paths
			// begin after the calls, so both extracts are defined
			startB := later.Block()
			var pred0 *ssa.BasicBlock
			n := walkFlagPaths(startB, pred0, st.Block(), flags, func(pe pathEnv) {
				got[name(pe.resolvePhi(st.Val))] = true
			})
			var gs []string
			for g := range got {
				gs = append(gs, g)
			}
			sort.Strings(gs)
			key := fmt.Sprintf("%s under (%s)", field, label)
			switch {
			case !val.a && !val.d:
				c.Check(n == 0, "FILL", fname, key, p.ipos(st), "no path reaches the store: the row is rejected", "a stop time with neither time valid is still stored (values: "+strings.Join(gs, ", ")+")")
			default:
				want := "arrival_time value"
				if field == "DepartureTime" {
					want = "departure_time value"
				}
				if !val.a {
					want = "departure_time value"
				}
				if !val.d {
					want = "arrival_time value"
				}
				ok := n > 0 && len(gs) == 1 && gs[0] == want
				c.Check(ok, "FILL", fname, key, p.ipos(st), fmt.Sprintf("on all %d paths the stored value is the %s", n, want),
					fmt.Sprintf("stored value is {%s} on %d paths; it must be the %s (the other side is invalid or is the field's own column)", strings.Join(gs, ", "), n, want))
			}
		}
	}
}

// blankIsInvalid: the fill-in keys on the validity flag of the time decoder, and "only one of the two is given" means
// that the other cell is blank (or its column absent, which reads as blank). So the decoder must answer "not valid"
// for the empty string: every return that can carry a true flag is dominated by the false edge of an emptiness test of
// the argument (s == "", len(s) == 0, len(s) < k, the same of strings.TrimSpace(s)).
func blankIsInvalid(c *Ctx, dec *ssa.Function) {
	p := c.P
	if len(dec.Params) == 0 || len(dec.Blocks) == 0 {
		return
	}
	s := dec.Params[0]
	flagIdx := -1
	for i := 0; i < dec.Signature.Results().Len(); i++ {
		if shortType(dec.Signature.Results().At(i).Type()) == "bool" {
			flagIdx = i
		}
	}
	if flagIdx < 0 {
		return
	}
	isArg := func(v ssa.Value) bool {
		if v == ssa.Value(s) {
			return true
		}
		if call, ok := v.(*ssa.Call); ok && calleeName(call) == "strings.TrimSpace" && call.Call.Args[0] == ssa.Value(s) {
			return true
		}
		return false
	}
	nonEmptyEdge := func(ce condEdge) bool {
		cond, val := ce.Cond, ce.Val
		for {
			u, isNot := cond.(*ssa.UnOp)
			if !isNot || u.Op != token.NOT {
				break
			}
			cond, val = u.X, !val
		}
		bo, ok := cond.(*ssa.BinOp)
		if !ok {
			return false
		}
		if k, isK := bo.Y.(*ssa.Const); isK && isArg(bo.X) && k.Value != nil && k.Value.Kind() == constant.String && constant.StringVal(k.Value) == "" {
			return (bo.Op == token.EQL && !val) || (bo.Op == token.NEQ && val)
		}
		if call, isCall := bo.X.(*ssa.Call); isCall {
			if b, isB := call.Call.Value.(*ssa.Builtin); isB && b.Name() == "len" && isArg(call.Call.Args[0]) {
				if k, isK := constInt(bo.Y); isK {
					switch bo.Op {
					case token.EQL:
						return k == 0 && !val
					case token.NEQ:
						return k == 0 && val
					case token.GTR:
						return k >= 0 && val
					case token.GEQ:
						return k >= 1 && val
					case token.LSS:
						return k >= 1 && !val
					case token.LEQ:
						return k >= 0 && !val
					}
				}
			}
		}
		return false
	}
	bad := ""
	n := 0
	for _, b := range dec.Blocks {
		ret, isRet := b.Instrs[len(b.Instrs)-1].(*ssa.Return)
		if !isRet {
			continue
		}
		if bv, isC := constBool(ret.Results[flagIdx]); isC && !bv {
			continue
		}
		n++
		ok := false
		for _, ce := range dominatingConds(b) {
			if nonEmptyEdge(ce) {
				ok = true
			}
		}
		if !ok && bad == "" {
			bad = "the return at " + p.ipos(ret) + " can answer `valid` without the argument having been tested for emptiness"
		}
	}
	c.Check(bad == "" && n > 0, "FILL", shortName(dec), "a blank cell is not a valid time", p.pos(dec.Pos()), fmt.Sprintf("all %d returns that can answer `valid` lie behind the false edge of an emptiness test of the cell", n), bad+": a blank arrival or departure counts as given (as 0s), and the other side is not copied into it")
}

// timeRejections: a cell is "not a valid time" for what it is made of -- it is empty, it has a character that is not a
// digit, a colon or white space, or it has more than three pieces -- and for nothing else: GTFS writes hours with one,
// two or three digits, so no count of digits decides. Every return of the decoder that answers `not valid` is
// controlled only by tests of the cell, of the current character, or of the index of the piece being filled.
func timeRejections(c *Ctx, dec *ssa.Function) {
	p := c.P
	if len(dec.Params) == 0 || len(dec.Blocks) == 0 {
		return
	}
	flagIdx := -1
	for i := 0; i < dec.Signature.Results().Len(); i++ {
		if shortType(dec.Signature.Results().At(i).Type()) == "bool" {
			flagIdx = i
		}
	}
	if flagIdx < 0 {
		return
	}
	// values used as the index of a local array (the piece counter), closed under phis and +const
	idx := map[ssa.Value]bool{}
	for _, b := range dec.Blocks {
		for _, in := range b.Instrs {
			if ia, ok := in.(*ssa.IndexAddr); ok {
				if _, isAlloc := ia.X.(*ssa.Alloc); isAlloc {
					idx[ia.Index] = true
				}
			}
		}
	}
	for changed := true; changed; {
		changed = false
		for v := range idx {
			switch x := v.(type) {
			case *ssa.Phi:
				for _, e := range x.Edges {
					if !idx[e] {
						if _, isK := e.(*ssa.Const); !isK {
							idx[e], changed = true, true
						}
					}
				}
			case *ssa.BinOp:
				for _, e := range []ssa.Value{x.X, x.Y} {
					if _, isK := e.(*ssa.Const); !isK && !idx[e] {
						idx[e], changed = true, true
					}
				}
			}
		}
		// and what is computed from an index by +const
		for _, b := range dec.Blocks {
			for _, in := range b.Instrs {
				if bo, ok := in.(*ssa.BinOp); ok && !idx[bo] && (bo.Op == token.ADD || bo.Op == token.SUB) {
					_, kx := bo.X.(*ssa.Const)
					_, ky := bo.Y.(*ssa.Const)
					if (idx[bo.X] && ky) || (idx[bo.Y] && kx) {
						idx[bo], changed = true, true
					}
				}
			}
		}
	}
	var okOperand func(v ssa.Value, d int) bool
	okOperand = func(v ssa.Value, d int) bool {
		if d > 5 {
			return false
		}
		if idx[v] {
			return true
		}
		switch x := v.(type) {
		case *ssa.Const, *ssa.Parameter:
			return true
		case *ssa.Extract:
			_, isNext := x.Tuple.(*ssa.Next)
			return isNext
		case *ssa.Convert:
			return okOperand(x.X, d+1)
		case *ssa.ChangeType:
			return okOperand(x.X, d+1)
		case *ssa.UnOp:
			if x.Op == token.NOT {
				return okOperand(x.X, d+1)
			}
			if ia, isIA := x.X.(*ssa.IndexAddr); isIA && x.Op == token.MUL {
				_, onParam := ia.X.(*ssa.Parameter)
				return onParam
			}
			return false
		case *ssa.Index:
			_, onParam := x.X.(*ssa.Parameter)
			return onParam
		case *ssa.Lookup:
			_, onParam := x.X.(*ssa.Parameter)
			return onParam
		case *ssa.BinOp:
			return okOperand(x.X, d+1) && okOperand(x.Y, d+1)
		case *ssa.Phi:
			for _, e := range x.Edges {
				if !okOperand(e, d+1) {
					return false
				}
			}
			return true
		case *ssa.Call:
			name := calleeName(x)
			if b, isB := x.Call.Value.(*ssa.Builtin); isB && b.Name() == "len" {
				return okOperand(x.Call.Args[0], d+1)
			}
			if strings.HasPrefix(name, "unicode.") || strings.HasPrefix(name, "strings.") {
				for _, a := range x.Call.Args {
					if !okOperand(a, d+1) {
						return false
					}
				}
				return true
			}
		}
		return false
	}
	bad, n := "", 0
	for _, b := range dec.Blocks {
		ret, isRet := b.Instrs[len(b.Instrs)-1].(*ssa.Return)
		if !isRet {
			continue
		}
		if bv, isC := constBool(ret.Results[flagIdx]); !isC || bv {
			continue
		}
		n++
		conds := dominatingConds(b)
		// ... and the tests of the branches that lead here directly (an `a || b || c` in front of the return)
		seenB := map[*ssa.BasicBlock]bool{}
		var preds func(x *ssa.BasicBlock, d int)
		preds = func(x *ssa.BasicBlock, d int) {
			if seenB[x] || d > 3 {
				return
			}
			seenB[x] = true
			for _, pb := range x.Preds {
				switch t := pb.Instrs[len(pb.Instrs)-1].(type) {
				case *ssa.If:
					conds = append(conds, condEdge{Cond: t.Cond, Val: pb.Succs[0] == x})
				case *ssa.Jump:
					if len(pb.Instrs) == 1 {
						preds(pb, d+1)
					}
				}
			}
		}
		preds(b, 0)
		for _, ce := range conds {
			if !okOperand(ce.Cond, 0) && bad == "" {
				bad = "the `not valid` answer at " + p.ipos(ret) + " depends on " + canon(ce.Cond)
				if in, isIn := ce.Cond.(ssa.Instruction); isIn {
					bad += " (" + p.ipos(in) + ")"
				}
			}
		}
	}
	c.Check(bad == "" && n > 0, "FILL", shortName(dec), "a time is invalid only for its characters or a fourth piece", p.pos(dec.Pos()), fmt.Sprintf("the %d `not valid` answers are controlled by tests of the cell, the current character and the piece index only", n), bad+", which is neither the cell, the current character nor the index of the piece: a well-formed time (one-digit hours, more than 24 hours) can be reported as missing, and the fill-in then overwrites it or drops the row")
}

// fillViaHelper: the fill-in rule is applied by a helper h. Either the two cells (or their column objects) are handed
// to h, which decodes both -- h(rawArrival, rawDeparture) -- or the caller decodes and hands h the two values with
// their validity flags -- h(arrival, arrivalOk, departure, departureOk). h answers the two times, as two results or as
// the fields of a small struct, and a flag. For each of the four validity combinations the answers h can give are read
// path by path; in the caller what is stored in the two fields is located in h's answer (result index, struct field),
// and both stores lie under ok == true. Emits the same obligations as the in-line form. Returns false when the code
// does not have this shape.
func fillViaHelper(c *Ctx, fn, dec *ssa.Function) bool {
	p := c.P
	fname := shortName(fn)
	type side struct {
		call     *ssa.Call
		val, flg ssa.Value
	}
	extracts := func(call *ssa.Call) *side {
		sd := &side{call: call}
		for _, r := range *call.Referrers() {
			if e, ok := r.(*ssa.Extract); ok {
				if e.Index == 0 {
					sd.val = e
				} else {
					sd.flg = e
				}
			}
		}
		return sd
	}
	// the column a value of the caller comes from: the column object, or a read of it
	columnOf := func(a ssa.Value) string {
		colObj := a
		if tn := typeName(a.Type()); !strings.HasSuffix(tn, "csv.OptionalColumn") && !strings.HasSuffix(tn, "csv.RequiredColumn") {
			rd, isCall := a.(*ssa.Call)
			if !isCall || len(rd.Call.Args) == 0 {
				return ""
			}
			colObj = rd.Call.Args[0]
		}
		if ci, _ := resolveColumn(colObj, 0); ci != nil {
			return ci.name
		}
		return ""
	}
	for _, b := range fn.Blocks {
		for _, in := range b.Instrs {
			hc, ok := in.(*ssa.Call)
			if !ok {
				continue
			}
			h := staticCallee(hc)
			nres := 0
			if h != nil {
				nres = h.Signature.Results().Len()
			}
			if h == nil || h == dec || !c.P.isModuleFn(h) || len(h.Blocks) == 0 || nres < 2 || nres > 3 || len(h.Params) != len(hc.Call.Args) {
				continue
			}
			// names of the symbols inside h, the flags among them, and the block the path walk starts in
			var arr, dep *side
			var startB *ssa.BasicBlock
			ai, di := -1, -1
			for k, a := range hc.Call.Args {
				switch columnOf(a) {
				case "arrival_time":
					ai = k
				case "departure_time":
					di = k
				}
			}
			if ai >= 0 && di >= 0 {
				find := func(prm *ssa.Parameter) *side {
					for _, hb := range h.Blocks {
						for _, hin := range hb.Instrs {
							call, ok := hin.(*ssa.Call)
							if !ok || staticCallee(call) != dec {
								continue
							}
							if call.Call.Args[0] != ssa.Value(prm) {
								// the helper was handed the column object and reads the cell itself
								rd, isRd := call.Call.Args[0].(*ssa.Call)
								if !isRd || len(rd.Call.Args) == 0 || rd.Call.Args[0] != ssa.Value(prm) || !strings.HasSuffix(calleeName(rd), "Column).Read") {
									continue
								}
							}
							return extracts(call)
						}
					}
					return nil
				}
				arr, dep = find(h.Params[ai]), find(h.Params[di])
				if arr != nil && dep != nil {
					later := dep.call
					if dominatesInstr(dep.call, arr.call) {
						later = arr.call
					}
					startB = later.Block()
				}
			} else {
				// the caller decodes: the arguments are the results of the two decode calls
				arr, dep = &side{}, &side{}
				for k, a := range hc.Call.Args {
					ex, isEx := a.(*ssa.Extract)
					if !isEx {
						continue
					}
					dc, isCall := ex.Tuple.(*ssa.Call)
					if !isCall || staticCallee(dc) != dec || len(dc.Call.Args) == 0 {
						continue
					}
					var sd *side
					switch columnOf(dc.Call.Args[0]) {
					case "arrival_time":
						sd = arr
					case "departure_time":
						sd = dep
					default:
						continue
					}
					sd.call = dc
					if ex.Index == 0 {
						sd.val = h.Params[k]
					} else {
						sd.flg = h.Params[k]
					}
				}
				startB = h.Blocks[0]
			}
			if arr == nil || dep == nil || arr.val == nil || arr.flg == nil || dep.val == nil || dep.flg == nil || startB == nil {
				continue
			}
			flagIdx := -1
			for i := 0; i < nres; i++ {
				if shortType(h.Signature.Results().At(i).Type()) == "bool" {
					flagIdx = i
				}
			}
			if flagIdx < 0 {
				continue
			}
			name := func(v ssa.Value) string {
				switch v {
				case arr.val:
					return "arrival_time value"
				case dep.val:
					return "departure_time value"
				}
				if k, ok := v.(*ssa.Const); ok {
					return "constant " + k.String()
				}
				return "other (" + canon(v) + ")"
			}
			// where in h's answer a stored value lies: result index and, for a struct result, the field
			type slot struct{ idx, field int }
			slotOf := func(v ssa.Value) (slot, bool) {
				field := -1
				if f, isField := v.(*ssa.Field); isField {
					field, v = f.Field, f.X
				} else if ld, isLoad := v.(*ssa.UnOp); isLoad && ld.Op == token.MUL {
					// the answer is kept in a local of the caller, stored once, and its field is read
					if fa, isFA := ld.X.(*ssa.FieldAddr); isFA {
						if al, isAlloc := fa.X.(*ssa.Alloc); isAlloc && !al.Heap {
							var only ssa.Value
							n := 0
							for _, r := range *al.Referrers() {
								switch x := r.(type) {
								case *ssa.Store:
									if x.Addr == ssa.Value(al) {
										only = x.Val
									}
									n++
								case *ssa.FieldAddr:
									for _, rr := range *x.Referrers() {
										if u, isU := rr.(*ssa.UnOp); !isU || u.Op != token.MUL {
											if _, isDbg := rr.(*ssa.DebugRef); !isDbg {
												n += 2
											}
										}
									}
								case *ssa.DebugRef:
								default:
									n += 2
								}
							}
							if n == 1 && only != nil {
								field, v = fa.Field, only
							}
						}
					}
				}
				ex, isEx := v.(*ssa.Extract)
				if !isEx || ex.Tuple != ssa.Value(hc) || ex.Index == flagIdx {
					return slot{}, false
				}
				return slot{ex.Index, field}, true
			}
			// the value h answers in a slot on one path: for a struct field, the last store to that field of the
			// composite literal on the path (none: the zero value)
			answer := func(ret *ssa.Return, pe pathEnv, sl slot) string {
				v := pe.resolvePhi(ret.Results[sl.idx])
				if sl.field < 0 {
					return name(v)
				}
				ld, isLoad := v.(*ssa.UnOp)
				if !isLoad || ld.Op != token.MUL {
					return "other (" + canon(v) + ")"
				}
				al, isAlloc := ld.X.(*ssa.Alloc)
				if !isAlloc {
					return "other (" + canon(v) + ")"
				}
				for _, r := range *al.Referrers() {
					switch x := r.(type) {
					case *ssa.FieldAddr:
						for _, rr := range *x.Referrers() {
							if st, isSt := rr.(*ssa.Store); !isSt || st.Addr != ssa.Value(x) {
								return "other (the address of a field of the answer is taken)"
							}
						}
					case *ssa.UnOp, *ssa.DebugRef:
					default:
						return "other (the answer is built by " + r.String() + ")"
					}
				}
				for blk := ret.Block(); blk != nil; blk = pe.pred[blk] {
					for i := len(blk.Instrs) - 1; i >= 0; i-- {
						st, isSt := blk.Instrs[i].(*ssa.Store)
						if !isSt {
							continue
						}
						if fa, isFA := st.Addr.(*ssa.FieldAddr); isFA && fa.X == ssa.Value(al) && fa.Field == sl.field {
							return name(pe.resolvePhi(st.Val))
						}
						if st.Addr == ssa.Value(al) {
							return name(pe.resolvePhi(st.Val))
						}
					}
					if blk == startB {
						break
					}
				}
				return "constant 0:" + shortType(al.Type())
			}
			stores := map[string]*ssa.Store{}
			slots := map[string]slot{}
			okCaller := true
			for _, fb := range fn.Blocks {
				for _, fin := range fb.Instrs {
					st, ok := fin.(*ssa.Store)
					if !ok {
						continue
					}
					fa, ok := st.Addr.(*ssa.FieldAddr)
					if !ok || typeName(fa.X.Type()) != "gtfs.ScheduledStopTime" {
						continue
					}
					f := fieldName(fa.X.Type(), fa.Field)
					if f != "ArrivalTime" && f != "DepartureTime" {
						continue
					}
					if stores[f] != nil {
						okCaller = false
					}
					stores[f] = st
					sl, isSlot := slotOf(st.Val)
					if !isSlot {
						okCaller = false
					}
					slots[f] = sl
					underOK := false
					for _, ce := range dominatingConds(fb) {
						cnd, val := ce.Cond, ce.Val
						if un, isNot := cnd.(*ssa.UnOp); isNot && un.Op == token.NOT {
							cnd, val = un.X, !val
						}
						if fe, isEx := cnd.(*ssa.Extract); isEx && fe.Tuple == ssa.Value(hc) && fe.Index == flagIdx && val {
							underOK = true
						}
					}
					if !underOK {
						okCaller = false
					}
				}
			}
			if stores["ArrivalTime"] == nil || stores["DepartureTime"] == nil {
				continue
			}
			for _, val := range []struct{ a, d bool }{{true, true}, {true, false}, {false, true}, {false, false}} {
				flags := map[ssa.Value]bool{arr.flg: val.a, dep.flg: val.d}
				label := fmt.Sprintf("arrival valid=%v, departure valid=%v", val.a, val.d)
				got := map[string]map[string]bool{"ArrivalTime": {}, "DepartureTime": {}}
				nAccept, nReject := 0, 0
				for _, rb := range h.Blocks {
					ret, isRet := rb.Instrs[len(rb.Instrs)-1].(*ssa.Return)
					if !isRet {
						continue
					}
					walkFlagPaths(startB, nil, rb, flags, func(pe pathEnv) {
						fv, known := evalFlagCond(ret.Results[flagIdx], flags, pe)
						if !known {
							got["ArrivalTime"]["unknown flag"] = true
							nAccept++
							return
						}
						if !fv {
							nReject++
							return
						}
						nAccept++
						for _, field := range []string{"ArrivalTime", "DepartureTime"} {
							if okCaller {
								got[field][answer(ret, pe, slots[field])] = true
							}
						}
					})
				}
				for _, field := range []string{"ArrivalTime", "DepartureTime"} {
					st := stores[field]
					var gs []string
					for g := range got[field] {
						gs = append(gs, g)
					}
					sort.Strings(gs)
					key := fmt.Sprintf("%s under (%s)", field, label)
					switch {
					case !val.a && !val.d:
						c.Check(nAccept == 0 && nReject > 0 && okCaller, "FILL", fname, key, p.ipos(st), "the helper answers ok=false and the caller stores only under ok: the row is rejected", "a stop time with neither time valid is still stored (values: "+strings.Join(gs, ", ")+")")
					default:
						want := "arrival_time value"
						if field == "DepartureTime" {
							want = "departure_time value"
						}
						if !val.a {
							want = "departure_time value"
						}
						if !val.d {
							want = "arrival_time value"
						}
						ok := nAccept > 0 && nReject == 0 && len(gs) == 1 && gs[0] == want && okCaller
						c.Check(ok, "FILL", fname, key, p.ipos(st), fmt.Sprintf("on all %d paths of %s the value answered for the field is the %s, and the caller stores it under ok", nAccept, shortName(h), want),
							fmt.Sprintf("stored value is {%s} on %d accepting / %d rejecting paths of %s; it must be the %s (the other side is invalid or is the field's own column)", strings.Join(gs, ", "), nAccept, nReject, shortName(h), want))
					}
				}
			}
			return true
		}
	}
	return false
}

// runInheritance: stores in the region guarded by the InheritWheelchairBoarding option.
func runInheritance(c *Ctx) {
	p := c.P
	fn := c.anchor("gtfs:parseStops")
	if fn == nil {
		return
	}
	fname := shortName(fn)
	// the inheritance flag: a value that is opts.InheritWheelchairBoarding -- read from the options directly, or a bool
	// parameter that every call site binds to it
	isFlag := func(v ssa.Value) bool {
		if strings.HasSuffix(canon(v), ".InheritWheelchairBoarding)") || strings.HasSuffix(canon(v), ".InheritWheelchairBoarding") {
			return true
		}
		prm, ok := v.(*ssa.Parameter)
		if !ok || prm.Type().String() != "bool" {
			return false
		}
		idx := paramIndex(prm)
		callers := p.Callers(prm.Parent())
		if len(callers) == 0 {
			return false
		}
		for _, e := range callers {
			args := e.Site.Common().Args
			if idx < 0 || idx >= len(args) || !strings.HasSuffix(canon(args[idx]), ".InheritWheelchairBoarding)") {
				return false
			}
		}
		return true
	}
	var flagVals []ssa.Value
	var region []*ssa.BasicBlock
	for _, b := range fn.Blocks {
		for _, ce := range dominatingConds(b) {
			if ce.Val && isFlag(ce.Cond) {
				region = append(region, b)
				flagVals = append(flagVals, ce.Cond)
			}
		}
	}
	if len(region) == 0 {
		c.Undecided("INH", fname, "guarded region", p.pos(fn.Pos()), "no code is guarded by the inheritance option (opts.InheritWheelchairBoarding)")
		return
	}
	c.Proved("INH", fname, "the pass is controlled by opts.InheritWheelchairBoarding", p.pos(fn.Pos()), "the guard is the option itself (or a parameter every caller binds to it)")
	inRegion := map[*ssa.BasicBlock]bool{}
	for _, b := range region {
		inRegion[b] = true
	}
	// helpers that run only inside the guarded region belong to it (an inheritance pass extracted into a function)
	for changed := true; changed; {
		changed = false
		for _, b := range append([]*ssa.BasicBlock{}, region...) {
			for _, in := range b.Instrs {
				call, ok := in.(*ssa.Call)
				if !ok || call.Call.IsInvoke() {
					continue
				}
				cal := call.Call.StaticCallee()
				if cal == nil || !p.isModuleFn(cal) || len(cal.Blocks) == 0 || fnPkgPath(cal) != fnPkgPath(fn) || inRegion[cal.Blocks[0]] {
					continue
				}
				only := true
				for _, e := range p.Callers(cal) {
					site, isInstr := e.Site.(ssa.Instruction)
					if !isInstr || !inRegion[site.Block()] {
						only = false
					}
				}
				if !only {
					continue
				}
				for _, cb := range cal.Blocks {
					inRegion[cb] = true
					region = append(region, cb)
				}
				changed = true
			}
		}
	}
	// any use of the option outside of being the guard?
	for _, fv := range flagVals {
		if fv.Referrers() == nil {
			continue
		}
		for _, r := range *fv.Referrers() {
			switch r.(type) {
			case *ssa.If, *ssa.DebugRef:
			default:
				c.Violated("INH", fname, "other use of the option", p.ipos(r), "the inheritance flag influences something other than the guarded inheritance pass: "+instrString(r))
			}
		}
	}
	nStores := 0
	for _, b := range region {
		for _, in := range b.Instrs {
			switch x := in.(type) {
			case *ssa.Store:
				fa, ok := x.Addr.(*ssa.FieldAddr)
				if !ok {
					if _, isAlloc := x.Addr.(*ssa.Alloc); isAlloc {
						continue // local variable
					}
					c.Violated("INH", fname, "store "+describeAddr(x.Addr), p.ipos(x), "enabling inheritance changes something other than Stop.WheelchairBoarding")
					continue
				}
				nStores++
				field := typeName(fa.X.Type()) + "." + fieldName(fa.X.Type(), fa.Field)
				if field != "gtfs.Stop.WheelchairBoarding" {
					c.Violated("INH", fname, "store "+field, p.ipos(x), "enabling inheritance changes "+field+", not only Stop.WheelchairBoarding")
					continue
				}
				// guards: Parent != nil, own == NotSpecified ; value: parent's WheelchairBoarding
				stopCanon := canon(fa.X)
				var hasParent, ownUnspec bool
				for _, g := range expandPredicateConds(c, dominatingConds(b)) {
					bo, ok := g.cond.(*ssa.BinOp)
					if !ok {
						continue
					}
					if isNilConst(bo.Y) && g.canon(bo.X) == "*("+stopCanon+".Parent)" && ((bo.Op == token.NEQ && g.val) || (bo.Op == token.EQL && !g.val)) {
						hasParent = true
					}
					if k, ok := bo.Y.(*ssa.Const); ok && !isNilConst(bo.Y) && g.canon(bo.X) == "*("+stopCanon+".WheelchairBoarding)" {
						if constKey(k) == strings.TrimPrefix(c.constOf("gtfs", "WheelchairBoarding_NotSpecified"), "const:") && ((bo.Op == token.EQL && g.val) || (bo.Op == token.NEQ && !g.val)) {
							ownUnspec = true
						}
					}
				}
				// and nothing else decides: a trip around the pass's loop that does not store must have failed one of the
				// three conditions the rule names (no parent, parent not a station, own value specified); a path that
				// skips the store for any other reason leaves out stops the rule covers
				var loop *Loop
				for _, l := range naturalLoops(b.Parent()) {
					if l.Blocks[b] && (loop == nil || len(l.Blocks) < len(loop.Blocks)) {
						loop = l
					}
				}
				if loop != nil && len(loop.Header.Succs) > 0 {
					station := strings.TrimPrefix(c.constOf("gtfs", "StopType_Station"), "const:")
					unspec := strings.TrimPrefix(c.constOf("gtfs", "WheelchairBoarding_NotSpecified"), "const:")
					start := loop.Header.Succs[0]
					if !loop.Blocks[start] && len(loop.Header.Succs) > 1 {
						start = loop.Header.Succs[1]
					}
					pathsWithin(start, loop, func(path []*ssa.BasicBlock, back bool) {
						if !back {
							return
						}
						stores, excused := false, false
						for i, pb := range path {
							for _, pin := range pb.Instrs {
								if pin == ssa.Instruction(x) {
									stores = true
								}
							}
							cond, val, okE := edgeTaken(path, i, loop.Header)
							if !okE {
								continue
							}
							// the three conditions named by a predicate of the module that answered false here: excused when
							// the predicate is the conjunction of (some of) the three and nothing else
							if pc, isCall := cond.(*ssa.Call); isCall && !val {
								inner := expandPredicateConds(c, []condEdge{{Cond: pc, Val: true}})
								onlyThree := len(inner) > 1
								for _, g := range inner[1:] {
									ibo, isB := g.cond.(*ssa.BinOp)
									okAtom := false
									if isB && (ibo.Op == token.EQL || ibo.Op == token.NEQ) {
										holds := (ibo.Op == token.EQL) == g.val
										cx := g.canon(ibo.X)
										switch {
										case isNilConst(ibo.Y) && cx == "*("+stopCanon+".Parent)" && !holds:
											okAtom = true
										case cx == "*(*("+stopCanon+".Parent).Type)" && holds:
											if k, isK := ibo.Y.(*ssa.Const); isK && constKey(k) == station {
												okAtom = true
											}
										case cx == "*("+stopCanon+".WheelchairBoarding)" && holds:
											if k, isK := ibo.Y.(*ssa.Const); isK && constKey(k) == unspec {
												okAtom = true
											}
										}
									}
									if !okAtom {
										onlyThree = false
									}
								}
								if onlyThree {
									excused = true
								}
								continue
							}
							// a named condition (`hasX := a && b` tested later): on this path the variable has the value of
							// the edge by which its block was entered
							for hops := 0; hops < 4; hops++ {
								if u, isNot := cond.(*ssa.UnOp); isNot && u.Op == token.NOT {
									cond, val = u.X, !val
									continue
								}
								ph, isPhi := cond.(*ssa.Phi)
								if !isPhi {
									break
								}
								var edge ssa.Value
								for j := i; j > 0; j-- {
									if path[j] == ph.Block() {
										for k, pr := range ph.Block().Preds {
											if pr == path[j-1] && edge == nil {
												edge = ph.Edges[k]
											}
										}
										break
									}
								}
								if edge == nil {
									break
								}
								cond = edge
							}
							bo, isBo := cond.(*ssa.BinOp)
							if !isBo {
								continue
							}
							holdsEq := (bo.Op == token.EQL) == val // the equality bo.X == bo.Y holds on this edge
							if bo.Op != token.EQL && bo.Op != token.NEQ {
								continue
							}
							cx := canon(bo.X)
							switch {
							case isNilConst(bo.Y) && cx == "*("+stopCanon+".Parent)" && holdsEq:
								excused = true // no parent
							case cx == "*(*("+stopCanon+".Parent).Type)" && !holdsEq:
								if k, isK := bo.Y.(*ssa.Const); isK && constKey(k) == station {
									excused = true // parent is not a station
								}
							case cx == "*("+stopCanon+".WheelchairBoarding)" && !holdsEq:
								if k, isK := bo.Y.(*ssa.Const); isK && constKey(k) == unspec {
									excused = true // own value specified
								}
							}
						}
						if !stores && !excused {
							c.Violated("INH", fname, "inheritance is not restricted further", p.ipos(x), "a stop with a parent station and no value of its own can pass through the inheritance pass without inheriting (the pass tests something else as well, e.g. the stop's own type)")
						}
					})
				}
				valOK := canon(x.Val) == "*(*("+stopCanon+".Parent).WheelchairBoarding)"
				c.Check(hasParent, "INH", fname, "inheritance guarded by parent present", p.ipos(x), "store dominated by Parent != nil", "inherited value is stored without checking that the stop has a parent")
				c.Check(ownUnspec, "INH", fname, "inheritance guarded by own value unspecified", p.ipos(x), "store dominated by own WheelchairBoarding == NotSpecified", "a stop's own wheelchair_boarding value is overwritten by its parent's")
				c.Check(valOK, "INH", fname, "inherited value is the parent's", p.ipos(x), "stores stop.Parent.WheelchairBoarding", "the value stored is not the parent station's WheelchairBoarding: "+canon(x.Val))
			case *ssa.MapUpdate:
				c.Violated("INH", fname, "map update in the inheritance pass", p.ipos(x), "enabling inheritance changes a map")
			case *ssa.Call:
				if cal := x.Call.StaticCallee(); cal != nil && len(cal.Blocks) > 0 && inRegion[cal.Blocks[0]] {
					continue // a helper of the pass itself: its body is checked as part of the region
				}
				if !isBuiltin(x, "len") && !isBuiltin(x, "cap") {
					c.Violated("INH", fname, "call in the inheritance pass", p.ipos(x), "enabling inheritance runs "+trimMod(calleeName(x))+": effects beyond Stop.WheelchairBoarding cannot be excluded")
				}
			}
		}
	}
	if nStores == 0 {
		c.Violated("INH", fname, "inheritance store", p.pos(fn.Pos()), "the guarded region stores nothing: the option has no effect")
	}
	// values leaving the region through phis (e.g. the result slice reassigned) must be unchanged
	for _, b := range fn.Blocks {
		if inRegion[b] {
			continue
		}
		for _, in := range b.Instrs {
			phi, ok := in.(*ssa.Phi)
			if !ok {
				break
			}
			fromRegion := false
			vals := map[ssa.Value]bool{}
			for i, e := range phi.Edges {
				if inRegion[b.Preds[i]] {
					fromRegion = true
				}
				vals[e] = true
			}
			if fromRegion && len(vals) > 1 && phi.Comment != "rangeindex" {
				c.Violated("INH", fname, "variable "+phi.Comment+" differs after the inheritance pass", p.ipos(phi), "a variable takes a different value when inheritance is enabled")
			}
		}
	}
}

// gcond: a branch outcome, possibly one that holds inside a predicate helper, with the helper's parameters spelled as
// the arguments of the call (sub) so that its operands compare with expressions of the caller.
type gcond struct {
	cond ssa.Value
	val  bool
	sub  map[ssa.Value]string
}

func (g gcond) canon(v ssa.Value) string {
	if g.sub == nil {
		return canon(v)
	}
	saved := canonSubst
	canonSubst = g.sub
	defer func() { canonSubst = saved }()
	return canon(v)
}

// expandPredicateConds: the given outcomes, and for every call of a loop-free predicate helper of the module that is
// known to have answered true, the outcomes of its single true exit (the conjunction the predicate stands for).
func expandPredicateConds(c *Ctx, ces []condEdge) []gcond {
	var out []gcond
	for _, ce := range ces {
		out = append(out, gcond{ce.Cond, ce.Val, nil})
		cond, val := ce.Cond, ce.Val
		for {
			u, isNot := cond.(*ssa.UnOp)
			if !isNot || u.Op != token.NOT {
				break
			}
			cond, val = u.X, !val
		}
		call, isCall := cond.(*ssa.Call)
		if !isCall || !val || call.Call.IsInvoke() {
			continue
		}
		h := call.Call.StaticCallee()
		if h == nil || !c.P.isModuleFn(h) || len(h.Blocks) == 0 || len(h.Params) != len(call.Call.Args) || h.Signature.Results().Len() != 1 || len(naturalLoops(h)) > 0 {
			continue
		}
		sub := map[ssa.Value]string{}
		for i, prm := range h.Params {
			sub[prm] = canon(call.Call.Args[i])
		}
		var disjuncts [][]condEdge
		for _, blk := range h.Blocks {
			ret, ok := blk.Instrs[len(blk.Instrs)-1].(*ssa.Return)
			if !ok {
				continue
			}
			rv := ret.Results[0]
			if bv, isC := constBool(rv); isC && !bv {
				continue
			}
			var inner []condEdge
			for _, ie := range dominatingConds(blk) {
				if !ie.Composite {
					inner = append(inner, ie)
				}
			}
			if _, isC := rv.(*ssa.Const); !isC {
				for _, ie := range atomise(condEdge{Cond: rv, Val: true}, 0) {
					if !ie.Composite {
						inner = append(inner, ie)
					}
				}
			}
			disjuncts = append(disjuncts, inner)
		}
		if len(disjuncts) != 1 {
			continue
		}
		for _, ie := range disjuncts[0] {
			out = append(out, gcond{ie.Cond, ie.Val, sub})
		}
	}
	return out
}
