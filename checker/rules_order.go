package main

// G6 / G16: iteration over Go maps must not leak its (randomised) order into results.

import (
	"fmt"
	"go/ast"
	"go/token"
	"go/types"
	"os"
	"sort"
	"strings"

	"golang.org/x/tools/go/ssa"
)

type mapRange struct {
	fn   *ssa.Function
	rng  *ssa.Range
	next *ssa.Next
	loop *Loop
	key  ssa.Value // may be nil
	val  ssa.Value // may be nil
	body *ssa.BasicBlock
	exit *ssa.BasicBlock // normal exit (iterator exhausted)
	name string
}

func findMapRanges(fns []*ssa.Function) []*mapRange {
	var out []*mapRange
	for _, fn := range fns {
		var loops []*Loop
		for _, b := range fn.Blocks {
			for _, in := range b.Instrs {
				r, ok := in.(*ssa.Range)
				if !ok {
					continue
				}
				if _, isMap := r.X.Type().Underlying().(*types.Map); !isMap {
					continue
				}
				if loops == nil {
					loops = naturalLoops(fn)
				}
				mr := &mapRange{fn: fn, rng: r}
				for _, ref := range *r.Referrers() {
					if n, ok := ref.(*ssa.Next); ok {
						mr.next = n
					}
				}
				if mr.next == nil {
					continue
				}
				for _, ref := range *mr.next.Referrers() {
					if e, ok := ref.(*ssa.Extract); ok {
						switch e.Index {
						case 1:
							mr.key = e
						case 2:
							mr.val = e
						}
					}
				}
				hb := mr.next.Block()
				for _, l := range loops {
					if l.Header == hb {
						mr.loop = l
					}
				}
				if iff, ok := hb.Instrs[len(hb.Instrs)-1].(*ssa.If); ok {
					_ = iff
					mr.body = hb.Succs[0]
					mr.exit = hb.Succs[1]
				}
				mr.name = describeMapExpr(r.X)
				out = append(out, mr)
			}
		}
	}
	return out
}

func describeMapExpr(v ssa.Value) string {
	switch x := v.(type) {
	case *ssa.MakeMap:
		if refs := x.Referrers(); refs != nil {
			for _, r := range *refs {
				if d, ok := r.(*ssa.DebugRef); ok {
					if id, ok := d.Expr.(*ast.Ident); ok {
						return id.Name
					}
				}
			}
		}
	case *ssa.Parameter:
		return x.Name()
	case *ssa.UnOp:
		if fv, ok := x.X.(*ssa.FreeVar); ok {
			return fv.Name()
		}
		if a, ok := x.X.(*ssa.Alloc); ok {
			return a.Comment
		}
		if fa, ok := x.X.(*ssa.FieldAddr); ok {
			return fieldName(fa.X.Type(), fa.Field)
		}
	case *ssa.Lookup:
		return describeMapExpr(x.X) + "[...]"
	case *ssa.Phi:
		return x.Comment
	}
	// debug refs
	if refs := v.Referrers(); refs != nil {
		for _, r := range *refs {
			if d, ok := r.(*ssa.DebugRef); ok {
				if id, ok := d.Expr.(*ast.Ident); ok {
					return id.Name
				}
			}
		}
	}
	return v.Name()
}

// rangeStmtAt finds the ast.RangeStmt whose `for` keyword is at pos.
func (p *Program) rangeStmtAt(pos token.Pos) *ast.RangeStmt {
	f := p.FileOf(pos)
	if f == nil {
		return nil
	}
	var out *ast.RangeStmt
	ast.Inspect(f, func(n ast.Node) bool {
		if rs, ok := n.(*ast.RangeStmt); ok && rs.For == pos {
			out = rs
			return false
		}
		return out == nil
	})
	return out
}

// effect is one side effect found in the body of a map-range loop.
type effect struct {
	in    ssa.Instruction
	kind  string // store | mapupdate | call
	addr  ssa.Value
	val   ssa.Value
	subst map[ssa.Value]ssa.Value // FreeVar -> binding for effects found inside closures
}

func runG6(c *Ctx, fns []*ssa.Function) {
	for _, mr := range findMapRanges(fns) {
		g6One(c, mr)
	}
}

func g6One(c *Ctx, mr *mapRange) {
	p := c.P
	fn := mr.fn
	fname := shortName(fn)
	construct := "range " + mr.name
	pos := p.pos(mr.rng.Pos())
	if mr.loop == nil || mr.body == nil {
		c.Undecided("G6", fname, construct, pos, "map range whose loop structure was not recognised")
		return
	}
	keyT := mr.rng.X.Type().Underlying().(*types.Map).Key()

	// iteration-derived values
	iter := map[ssa.Value]bool{}
	if mr.key != nil {
		iter[mr.key] = true
	}
	if mr.val != nil {
		iter[mr.val] = true
	}
	// loop-variable cells (captured range variables are allocated outside the loop
	// under pre-1.22 semantics): an Alloc whose position is the key/value identifier
	// of the range statement.
	loopVarCell := map[ssa.Value]bool{}
	if rs := p.rangeStmtAt(mr.rng.Pos()); rs != nil {
		for _, b := range fn.Blocks {
			for _, in := range b.Instrs {
				if a, ok := in.(*ssa.Alloc); ok {
					for _, e := range []ast.Expr{rs.Key, rs.Value} {
						if e != nil && a.Pos() == e.Pos() {
							loopVarCell[a] = true
						}
					}
				}
			}
		}
	}
	for cell := range loopVarCell {
		iter[cell] = true // loads of the cell are the key / value
	}
	localAlloc := map[ssa.Value]bool{} // allocations performed inside the loop: fresh per iteration
	for b := range mr.loop.Blocks {
		for _, in := range b.Instrs {
			switch x := in.(type) {
			case *ssa.Alloc:
				localAlloc[x] = true
			case *ssa.MakeMap:
				localAlloc[x] = true
			case *ssa.MakeSlice:
				localAlloc[x] = true
			}
		}
	}

	isIterDerived := func(v ssa.Value) bool { return derivedFrom(v, iter, false) }
	// classify an address: "local" (fresh per iteration), "perkey" (slot selected by the key/value), "outer"
	var classify func(addr ssa.Value, d int) string
	classify = func(addr ssa.Value, d int) string {
		if d > 30 {
			return "outer"
		}
		switch x := addr.(type) {
		case *ssa.Alloc:
			if loopVarCell[x] {
				return "loopvar"
			}
			if localAlloc[x] {
				return "local"
			}
			return "outer"
		case *ssa.MakeMap, *ssa.MakeSlice:
			if localAlloc[x.(ssa.Value)] {
				return "local"
			}
			return "outer"
		case *ssa.FieldAddr:
			return classify(x.X, d+1)
		case *ssa.IndexAddr:
			if isIterDerived(x.Index) {
				return "perkey"
			}
			return classify(x.X, d+1)
		case *ssa.Slice:
			return classify(x.X, d+1)
		case *ssa.Lookup:
			// an entry of another map selected by this iteration's key or value itself is this iteration's own; an entry
			// selected by something that was itself looked up under the key (m2[m1[key]]) need not be: two keys can
			// lead to the same entry, and then the map's order decides which write stays
			if isIterDerived(x.Index) && !throughLookup(x.Index, iter, 0) {
				return "perkey"
			}
			return classify(x.X, d+1)
		case *ssa.UnOp:
			if x.Op == token.MUL {
				// pointer loaded from somewhere: per-key if loaded from per-key/iteration data
				k := classify(x.X, d+1)
				if k == "loopvar" {
					return "perkey"
				}
				return k
			}
		case *ssa.Extract:
			if iter[x] {
				return "perkey"
			}
			return classify(x.Tuple, d+1)
		case *ssa.Phi:
			res := ""
			for _, e := range x.Edges {
				k := classify(e, d+1)
				if k == "outer" {
					return "outer"
				}
				res = k
			}
			if res == "" {
				return "outer"
			}
			return res
		case *ssa.ChangeType:
			return classify(x.X, d+1)
		case *ssa.MakeInterface:
			return classify(x.X, d+1)
		case *ssa.Call:
			// result of a call made inside the loop on iteration data only: treat as local/per-key
			if mr.loop.Blocks[x.Block()] {
				return "local"
			}
			return "outer"
		}
		if iter[addr] {
			return "perkey"
		}
		return "outer"
	}

	type accum struct {
		kind  string // "cell" (address-based) or "phi"
		canon string
		phi   *ssa.Phi
		store ssa.Instruction
		elem  ssa.Value // representative appended element (for key-coverage)
	}
	var accums []accum
	var problems []string
	nEffects := 0
	perKeyWrites := map[string][]string{} // cell class -> canonical addresses written per key

	// --- memory effects
	var scanInstr func(in ssa.Instruction, subst map[ssa.Value]ssa.Value, depth int)
	resolve := func(v ssa.Value, subst map[ssa.Value]ssa.Value) ssa.Value {
		if subst != nil {
			if b, ok := subst[v]; ok {
				return b
			}
		}
		return v
	}
	_ = resolve
	scanInstr = func(in ssa.Instruction, subst map[ssa.Value]ssa.Value, depth int) {
		switch x := in.(type) {
		case *ssa.Store:
			nEffects++
			k := classify(x.Addr, 0)
			if k == "perkey" {
				perKeyWrites[storeCell(x.Addr)] = append(perKeyWrites[storeCell(x.Addr)], canon(x.Addr))
			}
			switch k {
			case "local", "perkey":
				return
			case "loopvar":
				if iter[x.Val] {
					return // the range statement assigning its own variable
				}
				problems = append(problems, fmt.Sprintf("%s: assignment to the range variable inside the loop", p.ipos(x)))
				return
			}
			// outer state
			if isAppendOf(x.Val, x.Addr) {
				accums = append(accums, accum{kind: "cell", canon: canon(x.Addr), store: x, elem: appendedElem(x.Val)})
				return
			}
			if _, isConst := x.Val.(*ssa.Const); isConst {
				return // idempotent flag-style write
			}
			problems = append(problems, fmt.Sprintf("%s: store to %s, which outlives the loop, of a value that depends on the iteration (last writer wins, writer order is the map's)", p.ipos(x), canon(x.Addr)))
		case *ssa.MapUpdate:
			nEffects++
			k := classify(x.Map, 0)
			if k == "local" || k == "perkey" {
				return
			}
			if stripConv(x.Key) == mr.key || (mr.key != nil && isLoadOfCell(x.Key, loopVarCell)) {
				return // one slot per range key
			}
			if _, isConst := x.Value.(*ssa.Const); isConst {
				return // set insertion is commutative
			}
			problems = append(problems, fmt.Sprintf("%s: update of map %s under a key that is not the range key: colliding keys make the last writer win", p.ipos(x), describeMapExpr(x.Map)))
		case *ssa.Call:
			cc := x.Common()
			if b, ok := cc.Value.(*ssa.Builtin); ok {
				switch b.Name() {
				case "append", "len", "cap", "copy", "print", "println", "min", "max":
					if b.Name() == "copy" {
						nEffects++
						if k := classify(cc.Args[0], 0); k == "outer" {
							problems = append(problems, fmt.Sprintf("%s: copy into outer slice inside a map range", p.ipos(x)))
						}
					}
					return
				case "delete":
					nEffects++
					return
				}
				return
			}
			name := calleeName(x)
			switch {
			case strings.HasPrefix(name, "log.") || name == "fmt.Println" || name == "fmt.Printf" || name == "fmt.Print" || strings.HasPrefix(name, "(*log.Logger)."):
				return // diagnostics, not part of any result
			case isSortCall(name):
				nEffects++
				if k := classify(sortTarget(x), 0); k == "outer" {
					problems = append(problems, fmt.Sprintf("%s: sorting outer state inside a map range", p.ipos(x)))
				}
				return
			}
			// any other call: all pointer-like arguments must be iteration-local / per-key
			nEffects++
			for i, a := range allArgs(x) {
				if !refLike(a.Type()) {
					continue
				}
				if _, isConst := a.(*ssa.Const); isConst {
					continue
				}
				if _, isFn := a.(*ssa.Function); isFn {
					continue
				}
				if mc, ok := a.(*ssa.MakeClosure); ok {
					_ = mc
					continue // closure effects are scanned where the closure is created
				}
				if k := classify(a, 0); k == "outer" {
					if readOnlyCallee(c.P, x, i) {
						continue
					}
					problems = append(problems, fmt.Sprintf("%s: call %s passes outer state (%s) from inside a map range; its effects would be applied in map order", p.ipos(x), trimMod(name), canon(a)))
				}
			}
		case *ssa.MakeClosure:
			if depth > 3 {
				return
			}
			cl := x.Fn.(*ssa.Function)
			// effects inside the closure on captured outer variables
			for _, b := range cl.Blocks {
				for _, in2 := range b.Instrs {
					switch y := in2.(type) {
					case *ssa.Store:
						root := addrRoot(y.Addr)
						if fv, ok := root.(*ssa.FreeVar); ok {
							bind := x.Bindings[freeVarIndex(cl, fv)]
							if k := classify(bind, 0); k == "outer" {
								nEffects++
								problems = append(problems, fmt.Sprintf("%s: closure created in a map range stores to captured outer variable %s", p.ipos(y), fv.Name()))
							}
						} else if ld, ok := root.(*ssa.UnOp); ok {
							if fv, ok := ld.X.(*ssa.FreeVar); ok {
								bind := x.Bindings[freeVarIndex(cl, fv)]
								if k := classify(bind, 0); k == "outer" {
									nEffects++
									problems = append(problems, fmt.Sprintf("%s: closure created in a map range stores through captured outer variable %s", p.ipos(y), fv.Name()))
								}
							}
						}
					case *ssa.MapUpdate:
						if ld, ok := y.Map.(*ssa.UnOp); ok {
							if fv, ok := ld.X.(*ssa.FreeVar); ok {
								bind := x.Bindings[freeVarIndex(cl, fv)]
								if k := classify(bind, 0); k == "outer" {
									nEffects++
									problems = append(problems, fmt.Sprintf("%s: closure created in a map range updates captured outer map %s", p.ipos(y), fv.Name()))
								}
							}
						}
					}
				}
			}
		case *ssa.Return:
			for _, r := range x.Results {
				if _, ok := r.(*ssa.Const); !ok {
					problems = append(problems, fmt.Sprintf("%s: return from inside a map range with a non-constant result (first match in map order)", p.ipos(x)))
					break
				}
			}
		case *ssa.Send, *ssa.Go, *ssa.Defer:
			problems = append(problems, fmt.Sprintf("%s: %T inside a map range", p.ipos(in), in))
		}
	}
	for _, b := range fn.Blocks {
		if !mr.loop.Blocks[b] {
			continue
		}
		for _, in := range b.Instrs {
			scanInstr(in, nil, 0)
		}
	}

	// --- cross-iteration interference: a per-key write is order-insensitive only if no iteration reads a
	// cell of the same class through another object (it would see that object before or after its own
	// iteration updated it, depending on map order)
	if len(perKeyWrites) > 0 {
		for _, b := range fn.Blocks {
			if !mr.loop.Blocks[b] {
				continue
			}
			for _, in := range b.Instrs {
				// a module function called from the loop body that reads cells of a class the loop writes per key (e.g. a
				// walk along links that other iterations set): what it sees depends on which iterations ran before
				if call, isCall := in.(ssa.CallInstruction); isCall {
					if _, isB := call.Common().Value.(*ssa.Builtin); !isB {
						for _, cal := range p.Callees(call) {
							if !p.fnIndex[cal] {
								continue
							}
							for wc := range perKeyWrites {
								if p.loadSets()[cal][wc] {
									problems = append(problems, fmt.Sprintf("%s: calls %s, which reads %s, while the loop writes %s of each key's object: whether the other iterations ran first depends on map order", p.ipos(in), shortName(cal), wc, wc))
								}
							}
						}
					}
					continue
				}
				ld, ok := in.(*ssa.UnOp)
				if !ok || ld.Op != token.MUL {
					continue
				}
				cls := storeCell(ld.X)
				addrs, written := perKeyWrites[cls]
				if !written {
					// whole-struct load of a type one of whose fields is written per key
					if st := structOf(ld.Type()); st != nil {
						tn := typeName(ld.Type())
						for wc := range perKeyWrites {
							if strings.HasPrefix(wc, tn+".") && classify(ld.X, 0) == "outer" {
								problems = append(problems, fmt.Sprintf("%s: reads a whole %s that is not this iteration's own while the loop writes %s per key: the value seen depends on map order", p.ipos(ld), tn, wc))
							}
						}
					}
					continue
				}
				same := false
				for _, a := range addrs {
					if a == canon(ld.X) {
						same = true
					}
				}
				if !same {
					problems = append(problems, fmt.Sprintf("%s: reads %s through %s while the loop writes %s of other keys' objects: whether the other iteration ran first depends on map order", p.ipos(ld), cls, canon(ld.X), cls))
				}
			}
		}
	}

	// --- loop-carried registers (header phis)
	for _, in := range mr.loop.Header.Instrs {
		phi, ok := in.(*ssa.Phi)
		if !ok {
			break
		}
		carried := false
		for i, e := range phi.Edges {
			pred := mr.loop.Header.Preds[i]
			if !mr.loop.Blocks[pred] {
				continue
			}
			if e == phi {
				continue
			}
			carried = true
			switch phiCarriedKind(phi, e, mr.loop) {
			case "append":
				// handled below
			case "commutative", "const":
				carried = false
			default:
				problems = append(problems, fmt.Sprintf("%s: variable %q carried around the map range takes an iteration-dependent value (last writer wins)", p.ipos(phi), phi.Comment))
				carried = false
			}
			if carried {
				break
			}
		}
		if carried {
			accums = append(accums, accum{kind: "phi", phi: phi, canon: phi.Comment, elem: appendedElemInLoop(phi, mr.loop)})
		}
	}

	// --- early exits other than through the header
	for b := range mr.loop.Blocks {
		if b == mr.loop.Header {
			continue
		}
		for _, s := range b.Succs {
			if !mr.loop.Blocks[s] {
				// leaving the loop from the body: break or return
				if _, isRet := s.Instrs[len(s.Instrs)-1].(*ssa.Return); isRet && len(s.Instrs) == 1 {
					continue // reported by the Return case if non-constant (return blocks inside loop bodies belong to the loop only when they have successors)
				}
				problems = append(problems, fmt.Sprintf("%s: early exit (break/return) from a map range: which element triggers it depends on map order", p.pos(s.Instrs[0].Pos())))
			}
		}
	}

	// --- accumulations must be sorted after the loop by a key that covers the map key
	seenAcc := map[string]bool{}
	for _, a := range accums {
		if seenAcc[a.kind+a.canon] {
			continue
		}
		seenAcc[a.kind+a.canon] = true
		ok, how := sortedAfterLoop(c, mr, a.kind, a.canon, a.phi, keyT)
		if !ok {
			problems = append(problems, fmt.Sprintf("append to %s in map order: %s", a.canon, how))
		} else {
			c.Stats["G6 sorted accumulations"]++
			c.Note("G6 %s %s: accumulation into %s made deterministic: %s", fname, construct, a.canon, how)
		}
	}
	c.Stats["G6 effects classified"] += nEffects
	if len(problems) > 0 {
		c.Violated("G6", fname, construct, pos, strings.Join(problems, "; "))
	} else {
		c.Proved("G6", fname, construct, pos, fmt.Sprintf("%d body effects are per-key, iteration-local, commutative, or accumulated and sorted by the key afterwards", nEffects))
	}
}

func freeVarIndex(fn *ssa.Function, fv *ssa.FreeVar) int {
	for i, f := range fn.FreeVars {
		if f == fv {
			return i
		}
	}
	return 0
}

func stripConv(v ssa.Value) ssa.Value {
	for {
		switch x := v.(type) {
		case *ssa.Convert:
			v = x.X
		case *ssa.ChangeType:
			v = x.X
		default:
			return v
		}
	}
}

func isLoadOfCell(v ssa.Value, cells map[ssa.Value]bool) bool {
	if u, ok := stripConv(v).(*ssa.UnOp); ok && u.Op == token.MUL {
		return cells[u.X]
	}
	return false
}

// isAppendOf reports whether val is append(load(addr'), ...) with addr' the same cell as addr.
func isAppendOf(val, addr ssa.Value) bool {
	call, ok := val.(*ssa.Call)
	if !ok || !isBuiltin(call, "append") {
		return false
	}
	ld, ok := call.Call.Args[0].(*ssa.UnOp)
	if !ok || ld.Op != token.MUL {
		return false
	}
	return canon(ld.X) == canon(addr)
}

func appendedElem(val ssa.Value) ssa.Value {
	call, ok := val.(*ssa.Call)
	if !ok || len(call.Call.Args) < 2 {
		return nil
	}
	return call.Call.Args[1]
}

func appendedElemInLoop(phi *ssa.Phi, l *Loop) ssa.Value {
	for b := range l.Blocks {
		for _, in := range b.Instrs {
			if call, ok := in.(*ssa.Call); ok && isBuiltin(call, "append") && reachesPhi(call.Call.Args[0], phi, l, 0) {
				return call.Call.Args[1]
			}
		}
	}
	return nil
}

func reachesPhi(v ssa.Value, phi *ssa.Phi, l *Loop, d int) bool {
	if v == phi {
		return true
	}
	if d > 8 {
		return false
	}
	if p2, ok := v.(*ssa.Phi); ok && l.Blocks[p2.Block()] {
		for _, e := range p2.Edges {
			if reachesPhi(e, phi, l, d+1) {
				return true
			}
		}
	}
	return false
}

// phiCarriedKind classifies the value flowing around the back edge into a header phi.
func phiCarriedKind(phi *ssa.Phi, e ssa.Value, l *Loop) string {
	seen := map[ssa.Value]bool{}
	var rec func(v ssa.Value, d int) string
	rec = func(v ssa.Value, d int) string {
		if v == phi {
			return "same"
		}
		if d > 10 || seen[v] {
			return "same"
		}
		seen[v] = true
		switch x := v.(type) {
		case *ssa.Const:
			return "const"
		case *ssa.Phi:
			if !l.Blocks[x.Block()] {
				return "other"
			}
			res := "same"
			for _, ed := range x.Edges {
				k := rec(ed, d+1)
				switch {
				case k == "same":
				case res == "same" || res == k:
					res = k
				default:
					return "other"
				}
			}
			return res
		case *ssa.Call:
			if isBuiltin(x, "append") {
				if k := rec(x.Call.Args[0], d+1); k == "same" || k == "append" {
					return "append"
				}
			}
			return "other"
		case *ssa.BinOp:
			switch x.Op {
			case token.ADD, token.MUL, token.OR, token.AND, token.XOR:
				if b, ok := x.Type().Underlying().(*types.Basic); ok && b.Info()&types.IsInteger != 0 {
					if rec(x.X, d+1) == "same" || rec(x.Y, d+1) == "same" {
						return "commutative"
					}
				}
			case token.LOR, token.LAND:
				return "commutative"
			}
			return "other"
		}
		return "other"
	}
	return rec(e, 0)
}

func isSortCall(name string) bool {
	switch name {
	case "sort.Slice", "sort.SliceStable", "sort.Strings", "sort.Ints", "sort.Float64s", "sort.Sort", "sort.Stable",
		"slices.Sort", "slices.SortFunc", "slices.SortStableFunc":
		return true
	}
	return strings.HasPrefix(name, "slices.Sort[") || strings.HasPrefix(name, "slices.SortFunc[") || strings.HasPrefix(name, "slices.SortStableFunc[")
}

func sortTarget(call *ssa.Call) ssa.Value {
	a := call.Call.Args[0]
	if mi, ok := a.(*ssa.MakeInterface); ok {
		return mi.X
	}
	return a
}

func refLike(t types.Type) bool {
	switch t.Underlying().(type) {
	case *types.Pointer, *types.Slice, *types.Map, *types.Interface, *types.Signature, *types.Chan:
		return true
	}
	return false
}

// readOnlyCallee: the callee is known not to write through argument i.
func readOnlyCallee(p *Program, call *ssa.Call, i int) bool {
	name := calleeName(call)
	if ext, ok := externals[extName(name)]; ok {
		for _, w := range ext.Writes {
			if w == i {
				return false
			}
		}
		return ext.Known
	}
	// module callee: no store reachable through parameter i (cheap check: the
	// parameter is only read: loaded, compared, passed to len/cap)
	callee := staticCallee(call)
	if callee == nil || !p.fnIndex[callee] || i >= len(callee.Params) {
		return false
	}
	return paramOnlyRead(callee.Params[i], 0)
}

func paramOnlyRead(v ssa.Value, d int) bool {
	if d > 6 || v.Referrers() == nil {
		return false
	}
	for _, r := range *v.Referrers() {
		switch x := r.(type) {
		case *ssa.UnOp, *ssa.BinOp, *ssa.DebugRef, *ssa.Lookup, *ssa.Range, *ssa.If:
		case *ssa.FieldAddr:
			if !paramOnlyRead(x, d+1) {
				return false
			}
		case *ssa.IndexAddr:
			if !paramOnlyRead(x, d+1) {
				return false
			}
		case *ssa.Field:
		case *ssa.Index:
		case *ssa.Call:
			if b, ok := x.Call.Value.(*ssa.Builtin); ok && (b.Name() == "len" || b.Name() == "cap") {
				continue
			}
			return false
		case *ssa.Store:
			if x.Addr == v {
				return false
			}
			// storing the pointer itself somewhere: escapes
			return false
		default:
			return false
		}
	}
	return true
}

// sortedAfterLoop: the accumulated slice is passed to a sort routine that
// post-dominates the loop's normal exit, and the sort key covers the map key type.
func sortedAfterLoop(c *Ctx, mr *mapRange, kind, canonAddr string, phi *ssa.Phi, keyT types.Type) (bool, string) {
	fn := mr.fn
	var cands []*ssa.Call
	var inner map[*ssa.Call]*ssa.Call
	for _, b := range fn.Blocks {
		if mr.loop.Blocks[b] {
			continue
		}
		for _, in := range b.Instrs {
			call, ok := in.(*ssa.Call)
			if !ok {
				continue
			}
			var t ssa.Value
			if isSortCall(calleeName(call)) {
				t = sortTarget(call)
			} else if in2, idx := sortWrapperOf(c, call); in2 != nil {
				// a helper of the module that always sorts its idx-th argument
				t = call.Call.Args[idx]
				if inner == nil {
					inner = map[*ssa.Call]*ssa.Call{}
				}
				inner[call] = in2
			} else {
				continue
			}
			match := false
			if kind == "cell" {
				if ld, ok := t.(*ssa.UnOp); ok && ld.Op == token.MUL && canon(ld.X) == canonAddr {
					match = true
				}
			} else if t == phi {
				match = true
			}
			if match {
				cands = append(cands, call)
			}
		}
	}
	if len(cands) == 0 {
		return false, "no sort of it follows the loop in " + shortName(fn)
	}
	var why []string
	for _, call := range cands {
		// post-dominance: from the loop exit, no function exit is reachable without passing the sort's block
		if !mr.loop.Header.Dominates(call.Block()) {
			why = append(why, "sort at "+c.P.ipos(call)+" is not after the loop")
			continue
		}
		stop := map[*ssa.BasicBlock]bool{call.Block(): true}
		escaped := false
		if mr.exit != call.Block() {
			reach := blockReach(mr.exit, stop, true)
			for b := range reach {
				if len(b.Succs) == 0 {
					escaped = true
				}
			}
		}
		if escaped {
			why = append(why, "sort at "+c.P.ipos(call)+" does not lie on every path from the loop to the function's exits")
			continue
		}
		sc := call
		if in2 := inner[call]; in2 != nil {
			sc = in2
		}
		ok, how := sortKeyCovers(c, sc, keyT)
		if !ok {
			why = append(why, "sort at "+c.P.ipos(call)+": "+how)
			continue
		}
		return true, "sorted at " + c.P.ipos(call) + " (" + how + ")"
	}
	return false, strings.Join(why, "; ")
}

// sortKeyCovers: the order imposed by the sort call is total on the map's key type:
// sort.Strings / sort.Ints on a []K, or sort.Slice whose less-closure compares an
// expression of type K of element i with the same expression of element j, through
// `<`/`>` (basic K) or through a method that consults every field of K (G16).
func sortKeyCovers(c *Ctx, call *ssa.Call, keyT types.Type) (bool, string) {
	name := calleeName(call)
	target := sortTarget(call)
	elemT := types.Type(nil)
	if sl, ok := target.Type().Underlying().(*types.Slice); ok {
		elemT = sl.Elem()
	}
	switch name {
	case "sort.Strings", "sort.Ints", "sort.Float64s":
		if elemT != nil && types.Identical(elemT, keyT) {
			return true, name + " over the keys"
		}
		return false, "sorted values are not the map keys"
	case "sort.Slice", "sort.SliceStable":
	default:
		if strings.HasPrefix(name, "slices.Sort") && !strings.Contains(name, "Func") && elemT != nil && types.Identical(elemT, keyT) {
			return true, name + " over the keys"
		}
		return false, "comparator shape of " + name + " not recognised"
	}
	if len(call.Call.Args) < 2 {
		return false, "no comparator"
	}
	mc, ok := call.Call.Args[1].(*ssa.MakeClosure)
	if !ok {
		return false, "comparator is not a function literal"
	}
	less := mc.Fn.(*ssa.Function)
	return lessCoversKey(c, less, keyT)
}

// throughLookup: v is obtained from the iteration's key / value only by way of a map lookup (or an index into a
// slice): it is an entry stored under the key, not the key itself.
func throughLookup(v ssa.Value, iter map[ssa.Value]bool, d int) bool {
	if d > 12 || v == nil || iter[v] {
		return false
	}
	switch x := v.(type) {
	case *ssa.Lookup:
		return true
	case *ssa.Extract:
		return throughLookup(x.Tuple, iter, d+1)
	case *ssa.UnOp:
		return throughLookup(x.X, iter, d+1)
	case *ssa.ChangeType:
		return throughLookup(x.X, iter, d+1)
	case *ssa.Convert:
		return throughLookup(x.X, iter, d+1)
	case *ssa.Field:
		return throughLookup(x.X, iter, d+1)
	case *ssa.FieldAddr:
		return throughLookup(x.X, iter, d+1)
	case *ssa.Phi:
		for _, e := range x.Edges {
			if throughLookup(e, iter, d+1) {
				return true
			}
		}
	case *ssa.Alloc:
		for _, sv := range cellStores(x) {
			if throughLookup(sv, iter, d+1) {
				return true
			}
		}
	}
	return false
}

// lessCoversKey analyses a `func(i, j int) bool` closure.
func lessCoversKey(c *Ctx, less *ssa.Function, keyT types.Type) (bool, string) {
	if len(less.Params) != 2 {
		return false, "comparator does not take (i, j)"
	}
	pi, pj := less.Params[0], less.Params[1]
	var rets []*ssa.Return
	for _, b := range less.Blocks {
		if r, ok := b.Instrs[len(b.Instrs)-1].(*ssa.Return); ok {
			rets = append(rets, r)
		}
	}
	if len(rets) != 1 || len(less.Blocks) != 1 {
		return false, "comparator with more than one block is not recognised (write it as a single comparison or a call of a Less method)"
	}
	rv := rets[0].Results[0]
	norm := func(v ssa.Value, me, other *ssa.Parameter) (string, bool) {
		s := canon(v)
		if k := c.keyThroughFuncValue(v); k != "" {
			s = k // key(&x[i]) with key a selector of one field at every call site
		}
		if !strings.Contains(s, "["+me.Name()+"]") || strings.Contains(s, "["+other.Name()+"]") {
			return "", false
		}
		return strings.ReplaceAll(s, "["+me.Name()+"]", "[#]"), true
	}
	switch x := rv.(type) {
	case *ssa.BinOp:
		if x.Op != token.LSS && x.Op != token.GTR {
			return false, "comparator is not a strict < or >"
		}
		a, ok1 := norm(x.X, pi, pj)
		b, ok2 := norm(x.Y, pj, pi)
		if !ok1 || !ok2 {
			// maybe swapped (descending order)
			a, ok1 = norm(x.X, pj, pi)
			b, ok2 = norm(x.Y, pi, pj)
		}
		if !ok1 || !ok2 || a != b {
			return false, "comparator does not compare the same expression of elements i and j"
		}
		if !types.Identical(x.X.Type(), keyT) {
			return false, fmt.Sprintf("sort key has type %s, the map key has type %s: distinct keys may compare equal, leaving their order to the map", x.X.Type(), keyT)
		}
		if _, basic := keyT.Underlying().(*types.Basic); !basic {
			return false, "non-basic key compared with <"
		}
		return true, "comparator `" + a + " < ...` has the map's key type " + keyT.String()
	case *ssa.Call:
		callee := staticCallee(x)
		if callee == nil || !c.P.fnIndex[callee] {
			return false, "comparator calls an unresolved function"
		}
		args := x.Call.Args
		if len(args) != 2 {
			return false, "comparator method does not take two operands"
		}
		a, ok1 := norm(args[0], pi, pj)
		b, ok2 := norm(args[1], pj, pi)
		if !ok1 || !ok2 || a != b {
			return false, "comparator does not compare the same expression of elements i and j"
		}
		argT := args[0].Type()
		if pt, isPtr := argT.Underlying().(*types.Pointer); isPtr && !types.Identical(argT, keyT) {
			// the comparator is handed the addresses of the two keys
			switch args[0].(type) {
			case *ssa.FieldAddr, *ssa.IndexAddr:
				argT = pt.Elem()
			}
		}
		if !types.Identical(argT, keyT) {
			return false, fmt.Sprintf("sort key has type %s, the map key has type %s", args[0].Type(), keyT)
		}
		ok, how := lessMethodConsultsAllFields(callee)
		if !ok {
			return false, how
		}
		return true, "comparator " + shortName(callee) + " on the key type: " + how
	}
	return false, "comparator shape not recognised"
}

// lessMethodConsultsAllFields (G16): a two-operand ordering function over a struct type
// must read every field of both operands; a field that is never consulted lets two
// distinct keys compare equal.
func lessMethodConsultsAllFields(fn *ssa.Function) (bool, string) {
	if len(fn.Params) != 2 {
		return false, "not a binary comparator"
	}
	if g := comparatorForwardedTo(fn); g != nil {
		return lessMethodConsultsAllFields(g)
	}
	st := structOf(fn.Params[0].Type())
	if st == nil {
		if _, ok := fn.Params[0].Type().Underlying().(*types.Basic); ok {
			return true, "basic type"
		}
		return false, "operand type is not a struct"
	}
	consulted := [2]map[int]bool{{}, {}}
	for pi := 0; pi < 2; pi++ {
		roots := map[ssa.Value]bool{fn.Params[pi]: true}
		// value parameters are spilled: *alloc = param
		for _, r := range *fn.Params[pi].Referrers() {
			if st, ok := r.(*ssa.Store); ok && st.Val == fn.Params[pi] {
				roots[st.Addr] = true
			}
		}
		for _, b := range fn.Blocks {
			for _, in := range b.Instrs {
				switch x := in.(type) {
				case *ssa.FieldAddr:
					if roots[x.X] {
						consulted[pi][x.Field] = true
					}
				case *ssa.Field:
					if roots[x.X] {
						consulted[pi][x.Field] = true
					}
				}
			}
		}
	}
	var missing []string
	for i := 0; i < st.NumFields(); i++ {
		if !consulted[0][i] || !consulted[1][i] {
			missing = append(missing, st.Field(i).Name())
		}
	}
	if len(missing) > 0 {
		return false, fmt.Sprintf("%s never consults field(s) %s of both operands: keys differing only there compare equal", shortName(fn), strings.Join(missing, ", "))
	}
	if why := lessStagesMisguarded(fn); why != "" {
		return false, why
	}
	return true, fmt.Sprintf("%d/%d fields consulted", st.NumFields(), st.NumFields())
}

// comparatorForwardedTo: fn is `return g(a, b)` / `return g(&a, &b)` with a, b its two operands in order and nothing
// else: the comparison is g's.
func comparatorForwardedTo(fn *ssa.Function) *ssa.Function {
	if len(fn.Blocks) != 1 || len(fn.Params) != 2 {
		return nil
	}
	ret, ok := fn.Blocks[0].Instrs[len(fn.Blocks[0].Instrs)-1].(*ssa.Return)
	if !ok || len(ret.Results) != 1 {
		return nil
	}
	call, ok := ret.Results[0].(*ssa.Call)
	if !ok || call.Call.IsInvoke() || len(call.Call.Args) != 2 {
		return nil
	}
	g := call.Call.StaticCallee()
	if g == nil || len(g.Blocks) == 0 || g == fn || len(g.Params) != 2 {
		return nil
	}
	for k := 0; k < 2; k++ {
		a := call.Call.Args[k]
		if a == ssa.Value(fn.Params[k]) {
			continue
		}
		al, isAl := a.(*ssa.Alloc)
		if !isAl {
			return nil
		}
		sts := cellStores(al)
		if len(sts) != 1 || sts[0] != ssa.Value(fn.Params[k]) {
			return nil
		}
	}
	for _, in := range fn.Blocks[0].Instrs {
		switch x := in.(type) {
		case *ssa.Call:
			if x != call {
				return nil
			}
		case *ssa.MapUpdate, *ssa.Go, *ssa.Defer, *ssa.Send:
			return nil
		}
	}
	return g
}

// lessStagesMisguarded: the comparator is a chain of stages `if a.F differs from b.F { return ... }`. A stage may be
// qualified by a flag (`a.G && a.F != b.F`: F only counts when G is set), but then G has to be the field whose own
// stage comes directly before it (so that both operands agree on G here); qualified by any other field, two keys
// that differ in F alone can pass every stage: the order is not total and the sort leaves them in map order.
// Returns "" if every qualified stage is qualified by the field of the stage before it.
func lessStagesMisguarded(fn *ssa.Function) string {
	roots := [2]map[ssa.Value]bool{{}, {}}
	for pi := 0; pi < 2 && pi < len(fn.Params); pi++ {
		roots[pi][fn.Params[pi]] = true
		for _, r := range *fn.Params[pi].Referrers() {
			if st, ok := r.(*ssa.Store); ok && st.Val == ssa.Value(fn.Params[pi]) {
				roots[pi][st.Addr] = true
			}
		}
	}
	// fieldOf: v reads field i of operand pi (a load of &op.f, or op.f)
	fieldOf := func(v ssa.Value) (pi, fi int, ok bool) {
		switch x := v.(type) {
		case *ssa.UnOp:
			if fa, isFA := x.X.(*ssa.FieldAddr); isFA && x.Op == token.MUL {
				for k := 0; k < 2; k++ {
					if roots[k][fa.X] {
						return k, fa.Field, true
					}
				}
			}
		case *ssa.Field:
			for k := 0; k < 2; k++ {
				if roots[k][x.X] {
					return k, x.Field, true
				}
			}
		}
		return 0, 0, false
	}
	// differField: cond tests whether one field differs between the operands
	differField := func(cond ssa.Value) (int, bool) {
		for {
			u, isNot := cond.(*ssa.UnOp)
			if !isNot || u.Op != token.NOT {
				break
			}
			cond = u.X
		}
		switch x := cond.(type) {
		case *ssa.BinOp:
			if x.Op == token.NEQ || x.Op == token.EQL {
				p1, f1, ok1 := fieldOf(x.X)
				p2, f2, ok2 := fieldOf(x.Y)
				if ok1 && ok2 && p1 != p2 && f1 == f2 {
					return f1, true
				}
			}
		case *ssa.Call:
			if len(x.Call.Args) == 2 && !x.Call.IsInvoke() {
				p1, f1, ok1 := fieldOf(x.Call.Args[0])
				p2, f2, ok2 := fieldOf(x.Call.Args[1])
				if ok1 && ok2 && p1 != p2 && f1 == f2 {
					return f1, true // a.F.Equal(b.F) and the like
				}
			}
		}
		return 0, false
	}
	st := structOf(fn.Params[0].Type())
	for _, b := range fn.Blocks {
		iff, ok := b.Instrs[len(b.Instrs)-1].(*ssa.If)
		if !ok {
			continue
		}
		f, isStage := differField(iff.Cond)
		if !isStage {
			continue
		}
		// qualifiers: plain boolean field reads among the conditions that dominate this stage
		var prevStage = -1
		conds := dominatingConds(b)
		sort.SliceStable(conds, func(i, j int) bool { // outermost first
			bi, bj := conds[i].If, conds[j].If
			if bi == nil || bj == nil || bi.Block() == bj.Block() {
				return false
			}
			return bi.Block().Dominates(bj.Block())
		})
		for _, ce := range conds {
			if g, isDiff := differField(ce.Cond); isDiff {
				prevStage = g
				continue
			}
			cond := ce.Cond
			for {
				u, isNot := cond.(*ssa.UnOp)
				if !isNot || u.Op != token.NOT {
					break
				}
				cond = u.X
			}
			if _, g, isField := fieldOf(cond); isField {
				if g != prevStage {
					name := func(i int) string {
						if st != nil && i >= 0 && i < st.NumFields() {
							return st.Field(i).Name()
						}
						return fmt.Sprint(i)
					}
					return fmt.Sprintf("%s compares %s only when %s is set, but the stage before it compares %s: two keys that differ in %s alone can compare equal (no total order: map order leaks through the sort)", shortName(fn), name(f), name(g), name(prevStage), name(f))
				}
			}
		}
	}
	return ""
}

// sortWrapperOf: call invokes a function of the module that sorts one of its parameters on every path (exactly one
// sort call, on the parameter itself, in a block that every return passes through). Returns that inner sort call and the
// parameter's index.
func sortWrapperOf(c *Ctx, call *ssa.Call) (*ssa.Call, int) {
	h := call.Call.StaticCallee()
	if h == nil || call.Call.IsInvoke() || len(h.Blocks) == 0 || !c.P.isModuleFn(h) {
		return nil, -1
	}
	if os.Getenv("GTFSDEBUGSW") != "" {
		fmt.Fprintln(os.Stderr, "sortWrapperOf", h.String(), len(h.Blocks))
	}
	var sorts []*ssa.Call
	for _, b := range h.Blocks {
		for _, in := range b.Instrs {
			if sc, ok := in.(*ssa.Call); ok && isSortCall(calleeName(sc)) {
				sorts = append(sorts, sc)
			}
		}
	}
	if os.Getenv("GTFSDEBUGSW") != "" && len(sorts) > 0 {
		fmt.Fprintf(os.Stderr, "  sorts=%d target=%T %v\n", len(sorts), sortTarget(sorts[0]), sortTarget(sorts[0]))
	}
	if len(sorts) != 1 {
		return nil, -1
	}
	tv := sortTarget(sorts[0])
	if ld, isLd := tv.(*ssa.UnOp); isLd && ld.Op == token.MUL {
		// a parameter captured by the comparator lives in a cell: the cell holds the parameter and nothing else
		if al, isAl := ld.X.(*ssa.Alloc); isAl {
			if st := cellStores(al); len(st) == 1 {
				tv = st[0]
			}
		}
	}
	pa, ok := tv.(*ssa.Parameter)
	if !ok {
		return nil, -1
	}
	for _, b := range h.Blocks {
		if _, isRet := b.Instrs[len(b.Instrs)-1].(*ssa.Return); isRet && !sorts[0].Block().Dominates(b) {
			return nil, -1
		}
	}
	for i, q := range h.Params {
		if q == pa && i < len(call.Call.Args) {
			return sorts[0], i
		}
	}
	return nil, -1
}
