package main

// The private vocabulary of package csv (field and type names of File, its row and the column structs) is found by
// role, so that renaming any of it changes nothing for the rules:
//   - curRow:   the File field that points to the per-row struct (a pointer to an unexported struct of package csv)
//   - hdrMap:   the File field of type map[string]int
//   - rowType:  the per-row struct's type name ("csv.row")
//   - cells:    the per-row struct's field that NextRow fills with the record returned by encoding/csv's Read
//   - colIndex: the int field of RequiredColumn / OptionalColumn

import (
	"go/types"
	"strings"

	"golang.org/x/tools/go/ssa"
)

type csvRoles struct {
	curRow, hdrMap, rowType, cells, colIndex string
}

func (c *Ctx) csvRoleNames() *csvRoles {
	if c.csvMemo != nil {
		return c.csvMemo
	}
	r := &csvRoles{curRow: "currentRow", hdrMap: "headerMap", rowType: "csv.row", cells: "cells", colIndex: "i"}
	c.csvMemo = r
	pk := c.P.ByPath[pkgPathOf("csv")]
	if pk == nil {
		return r
	}
	fileObj := pk.Types.Scope().Lookup("File")
	if fileObj == nil {
		return r
	}
	fst, _ := fileObj.Type().Underlying().(*types.Struct)
	if fst == nil {
		return r
	}
	var rowT types.Type
	for i := 0; i < fst.NumFields(); i++ {
		f := fst.Field(i)
		if shortType(f.Type()) == "map[string]int" {
			r.hdrMap = f.Name()
		}
		if pt, ok := f.Type().(*types.Pointer); ok {
			if n := namedOf(pt.Elem()); n != nil && n.Obj().Pkg() == pk.Types && !n.Obj().Exported() {
				if _, isStruct := n.Underlying().(*types.Struct); isStruct {
					r.curRow = f.Name()
					rowT = n
					r.rowType = typeName(n)
				}
			}
		}
	}
	for _, nm := range []string{"RequiredColumn", "OptionalColumn"} {
		if o := pk.Types.Scope().Lookup(nm); o != nil {
			if f := fieldOfType(o.Type(), "int"); f != "" {
				r.colIndex = f
			}
		}
	}
	// cells: the row field that receives the record read by encoding/csv
	if rowT != nil {
		for _, fn := range c.P.ModFns {
			if fnPkgPath(fn) != pkgPathOf("csv") {
				continue
			}
			for _, b := range fn.Blocks {
				for _, in := range b.Instrs {
					st, ok := in.(*ssa.Store)
					if !ok {
						continue
					}
					fa, ok := st.Addr.(*ssa.FieldAddr)
					if !ok || typeName(fa.X.Type()) != r.rowType {
						continue
					}
					if ex, ok := st.Val.(*ssa.Extract); ok && ex.Index == 0 {
						if call, ok := ex.Tuple.(*ssa.Call); ok && strings.HasSuffix(calleeName(call), "encoding/csv.Reader).Read") {
							r.cells = fieldName(fa.X.Type(), fa.Field)
						}
					}
				}
			}
		}
	}
	return r
}
