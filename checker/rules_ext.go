package main

// C16 (nycttrips) and C17 (nyctalerts): structural clauses of the NYCT extensions.

import (
	"fmt"
	"go/ast"
	"go/token"
	"go/types"
	"regexp/syntax"
	"sort"
	"strings"

	"golang.org/x/tools/go/ssa"
)

// guardStrings renders the branch conditions that dominate a block as "+expr" / "-expr".
func guardStrings(b *binder, blk *ssa.BasicBlock) []string {
	var out []string
	for _, ce := range dominatingConds(blk) {
		cond, val := ce.Cond, ce.Val
		for {
			u, isNot := cond.(*ssa.UnOp)
			if !isNot || u.Op != token.NOT {
				break
			}
			cond, val = u.X, !val
		}
		sign := "+"
		if !val {
			sign = "-"
		}
		out = append(out, sign+b.bind(cond))
		// a helper's ok result known true: what holds inside the helper wherever it returns true holds here as well
		if ex, isEx := cond.(*ssa.Extract); isEx && val {
			if call, isCall := ex.Tuple.(*ssa.Call); isCall && !call.Call.IsInvoke() {
				out = append(out, liftedGuards(b, call, ex.Index)...)
			}
		}
		// ... and known false: what holds wherever it returns false
		if ex, isEx := cond.(*ssa.Extract); isEx && !val {
			if call, isCall := ex.Tuple.(*ssa.Call); isCall && !call.Call.IsInvoke() {
				out = append(out, liftedGuardsFor(b, call, ex.Index, false)...)
			}
		}
		if call, isCall := cond.(*ssa.Call); isCall && val && !call.Call.IsInvoke() {
			out = append(out, liftedGuards(b, call, 0)...)
		}
	}
	return out
}

// liftedGuards: the guards common to every `return ..., true` (result idx) of the statically called module helper, in
// terms of the call's arguments.
func liftedGuards(b *binder, call *ssa.Call, idx int) []string {
	return liftedGuardsFor(b, call, idx, true)
}

// liftedGuardsFor: the guards common to every return of the helper whose result idx is the constant `want`.
func liftedGuardsFor(b *binder, call *ssa.Call, idx int, want bool) []string {
	cal := call.Call.StaticCallee()
	if cal == nil || !b.c.P.isModuleFn(cal) || len(cal.Blocks) == 0 || b.inlineD >= 2 || len(cal.Params) != len(call.Call.Args) {
		return nil
	}
	var args []string
	for _, a := range call.Call.Args {
		args = append(args, b.bind(a))
	}
	sub := b.withArgs(cal, args)
	sub.showBodies = b.showBodies
	var common map[string]bool
	n := 0
	for _, blk := range cal.Blocks {
		ret, ok := blk.Instrs[len(blk.Instrs)-1].(*ssa.Return)
		if !ok || idx >= len(ret.Results) {
			continue
		}
		if bv, isC := constBool(ret.Results[idx]); !isC || bv != want {
			if _, isConst := ret.Results[idx].(*ssa.Const); isConst {
				continue // returns the other constant here
			}
			return nil // computed result: nothing to lift
		}
		n++
		gs := map[string]bool{}
		for _, g := range guardStrings(sub, blk) {
			gs[g] = true
		}
		if common == nil {
			common = gs
		} else {
			for g := range common {
				if !gs[g] {
					delete(common, g)
				}
			}
		}
	}
	if n == 0 {
		return nil
	}
	var out []string
	for g := range common {
		out = append(out, g)
	}
	sort.Strings(out)
	return out
}

func hasGuard(gs []string, sign string, substrs ...string) bool {
	for _, g := range gs {
		if !strings.HasPrefix(g, sign) {
			continue
		}
		ok := true
		for _, s := range substrs {
			if !strings.Contains(g, s) {
				ok = false
			}
		}
		if ok {
			return true
		}
	}
	return false
}

// mapLiteralKeys returns the keys (as source text) of the package-level map literal variable of the given type
// (e.g. "map[proto.MercuryEntitySelector_Priority]bool"); the variable's name is free.
func (c *Ctx) mapLiteralKeys(pkgShort, mapType string) ([]string, bool) {
	pk := c.P.ByPath[pkgPathOf(pkgShort)]
	if pk == nil {
		return nil, false
	}
	varName := ""
	for _, nm := range pk.Types.Scope().Names() {
		if v, ok := pk.Types.Scope().Lookup(nm).(*types.Var); ok && shortType(v.Type()) == mapType {
			if varName != "" {
				return nil, false
			}
			varName = nm
		}
	}
	if varName == "" {
		return nil, false
	}
	var keys []string
	found := false
	for _, f := range pk.Syntax {
		ast.Inspect(f, func(n ast.Node) bool {
			vs, ok := n.(*ast.ValueSpec)
			if !ok {
				return true
			}
			for i, nm := range vs.Names {
				if nm.Name != varName || i >= len(vs.Values) {
					continue
				}
				cl, ok := vs.Values[i].(*ast.CompositeLit)
				if !ok {
					continue
				}
				found = true
				for _, el := range cl.Elts {
					if kv, ok := el.(*ast.KeyValueExpr); ok {
						k := exprText(kv.Key)
						keys = append(keys, k)
					}
				}
			}
			return true
		})
	}
	sort.Strings(keys)
	return keys, found
}

func exprText(e ast.Expr) string {
	switch x := e.(type) {
	case *ast.BasicLit:
		return strings.Trim(x.Value, "\"")
	case *ast.SelectorExpr:
		return x.Sel.Name
	case *ast.Ident:
		return x.Name
	}
	return fmt.Sprintf("%T", e)
}

// localMapLiteralKeys: keys of a map built by a composite literal inside a function (MakeMap + constant MapUpdates).
func localMapLiteralKeys(fn *ssa.Function) map[ssa.Value][]string {
	out := map[ssa.Value][]string{}
	for _, b := range fn.Blocks {
		for _, in := range b.Instrs {
			if mu, ok := in.(*ssa.MapUpdate); ok {
				if s, isS := constString(mu.Key); isS {
					out[mu.Map] = append(out[mu.Map], s)
				}
			}
		}
	}
	for k := range out {
		sort.Strings(out[k])
	}
	return out
}

// ---------------------------------------------------------------- C16

func runNyctTrips(c *Ctx) {
	p := c.P
	b := newBinder(c)
	b.showBodies = true
	upd := c.anchor("nycttrips:(extension).updateTripOrVehicle")
	fix := c.anchor("nycttrips:fixMTrainPlatformsInBushwick")
	stale := c.anchor("nycttrips:isStaleUnassignedTrip")
	getTrack := c.anchor("nycttrips:(extension).GetTrack")
	updTrip := c.anchor("nycttrips:(extension).UpdateTrip")
	if upd == nil || fix == nil || stale == nil || getTrack == nil || updTrip == nil {
		return
	}
	// X1: transparency: nothing is written before the NYCT descriptor is known to be present
	for _, f := range []*ssa.Function{upd} {
		fname := shortName(f)
		ok := true
		n := 0
		for _, blk := range f.Blocks {
			gs := guardStrings(b, blk)
			for _, in := range blk.Instrs {
				st, isSt := in.(*ssa.Store)
				if !isSt {
					if call, isCall := in.(*ssa.Call); isCall && setsVehicleDescriptor(call) {
						n++
						if !hasGuard(gs, "+", "proto.HasExtension(", "E_NyctTripDescriptor") {
							ok = false
						}
					}
					continue
				}
				if _, isAlloc := addrRoot(st.Addr).(*ssa.Alloc); isAlloc {
					continue
				}
				n++
				if !hasGuard(gs, "+", "proto.HasExtension(", "E_NyctTripDescriptor") {
					ok = false
				}
			}
		}
		c.Check(ok && n > 0, "NYCT", fname, "entities without the NYCT trip descriptor are left untouched", p.pos(f.Pos()), fmt.Sprintf("all %d writes to the entity are dominated by proto.HasExtension(tripDesc, E_NyctTripDescriptor)", n), "a trip or vehicle without NYCT extension data is modified")
	}
	// GetTrack: nil without the extension, actual track preferred
	{
		fname := shortName(getTrack)
		tb, err := extractTable(getTrack)
		ok := err == nil
		detail := ""
		if ok {
			var rows []string
			for _, r := range tb.rows {
				rows = append(rows, condsString(r.conds)+" -> "+r.results[0])
			}
			detail = strings.Join(rows, " ; ")
			nNil, nActual, nSched := 0, 0, 0
			hasExt := func(r trow, positive bool) bool {
				for _, a := range r.conds {
					v := a.v
					if u, isNot := v.(*ssa.UnOp); isNot {
						v = u.X
					}
					if call, isCall := v.(*ssa.Call); isCall && calleeName(call) == "google.golang.org/protobuf/proto.HasExtension" {
						if g := extGlobal(call.Call.Args[1]); g != nil && g.Name() == "E_NyctStopTimeUpdate" {
							// a.neg relative to the decomposed condition; the NOT was already folded into neg
							isNeg := a.neg
							if _, isNot := a.v.(*ssa.UnOp); isNot {
								// decomposeCond flipped neg for the NOT; a.neg already accounts for it
							}
							return isNeg != positive
						}
					}
				}
				return false
			}
			for _, r := range tb.rows {
				cs := condsString(r.conds)
				switch {
				case r.results[0] == "const:nil":
					nNil++
					if !hasExt(r, false) || len(r.conds) != 1 {
						ok = false
					}
				case strings.HasSuffix(r.results[0], ".ActualTrack)"):
					nActual++
					if !strings.Contains(cs, ".ActualTrack)!=nil") || !hasExt(r, true) {
						ok = false
					}
				case strings.HasSuffix(r.results[0], ".ScheduledTrack)"):
					nSched++
					if !strings.Contains(cs, ".ActualTrack)==nil") || !hasExt(r, true) {
						ok = false
					}
				default:
					ok = false
				}
			}
			if nNil != 1 || nActual != 1 || nSched != 1 {
				ok = false
			}
		} else {
			detail = err.Error()
		}
		c.Check(ok, "NYCT", fname, "track = actual track when present, else scheduled; nil without NYCT data", p.pos(getTrack.Pos()), "three rows: no extension -> nil; ActualTrack != nil -> ActualTrack; else ScheduledTrack", "GetTrack's decision table differs: "+clip(detail, 300))
	}
	// direction: NORTH -> 0, otherwise 1
	{
		fname := shortName(upd)
		// every way a direction id is stored: the value with the conditions under which it is that value (the guards of
		// the field store plus those of the assignment to the variable whose address is stored); an unguarded
		// initialisation that a guarded assignment overrides counts as the "otherwise" case
		var dirs []string
		northConst := strings.TrimPrefix(c.constOf("proto", "NyctTripDescriptor_NORTH"), "const:")
		isNorth := func(gs []string, sign string) bool {
			return hasGuard(gs, sign, "proto:NyctTripDescriptor.Direction", "== const:"+northConst)
		}
		for _, fs := range collectFieldStores(c.regionOf(upd), "proto.TripDescriptor") {
			if fs.field != "DirectionId" {
				continue
			}
			base := guardStrings(b, fs.store.Block())
			alts := storeAlternatives(b, fs.store.Val)
			if len(alts) == 0 {
				alts = []storeAlt{{nil, b.bind(fs.store.Val)}}
			}
			overridden := false
			for _, alt := range alts {
				if isNorth(alt.guards, "+") || isNorth(alt.guards, "-") {
					overridden = true
				}
			}
			for _, alt := range alts {
				gs := append(append([]string{}, base...), alt.guards...)
				val := strings.TrimSuffix(strings.TrimPrefix(alt.val, "&("), ")")
				switch {
				case isNorth(gs, "+"):
					dirs = append(dirs, "NORTH->"+val)
				case isNorth(gs, "-"):
					dirs = append(dirs, "else->"+val)
				case overridden:
					dirs = append(dirs, "else->"+val) // the initial value, kept unless the NORTH branch assigns
				default:
					dirs = append(dirs, "?->"+val)
				}
			}
		}
		sort.Strings(dirs)
		dirs = dedup(dirs)
		ok := strings.Join(dirs, ",") == "NORTH->const:0,else->const:1" && northConst == "1"
		c.Check(ok, "NYCT", fname, "direction NORTH -> 0, otherwise 1", p.pos(upd.Pos()), strings.Join(dirs, ", "), "direction_id is derived as "+strings.Join(dirs, ", ")+" (expected NORTH->0, else->1)")
		// composed with the realtime direction table 0 -> False, 1 -> True (C02 UNITS)
	}
	// start time: group 1 of TripIDRegex = six digits; integer arithmetic only; HH:MM:SS format
	{
		fname := shortName(upd)
		okRe, okFmt, gotFmt := false, false, ""
		if sp := p.SSAPkg[pkgPathOf("nycttrips")]; sp != nil {
			if g, ok := sp.Members["TripIDRegex"].(*ssa.Global); ok {
				if pat, ok := c.globalRegexpPattern(g); ok {
					if rx, err := syntax.Parse(pat, syntax.Perl); err == nil {
						okRe = firstGroupIsSixDigits(rx)
						// the whole id format (oracle, DESIGN A.4): the same language as the documented NYCT pattern --
						// compared after parsing, so spelling (\d for [0-9], ...) does not matter
						if want, err2 := syntax.Parse(nyctTripIDPattern, syntax.Perl); err2 == nil {
							okFmt = rx.Simplify().String() == want.Simplify().String()
							gotFmt = rx.Simplify().String()
						}
					}
				}
			}
		}
		c.Check(okRe, "NYCT", "nycttrips.TripIDRegex", "origin time = first six digits of the trip id", "-", "capture group 1 of TripIDRegex is [0-9]{6} at the start of the id", "TripIDRegex's first capture group is not exactly six leading digits")
		c.Check(okFmt, "NYCT", "nycttrips.TripIDRegex", "NYCT trip id format", "-", "the pattern is the documented one: six digits, `_`, a route of one or two characters, two separator characters, N or S, an optional path identifier", "TripIDRegex accepts another set of ids than the NYCT format ("+gotFmt+" instead of "+nyctTripIDPattern+"): ids of the format that it rejects get no start time (e.g. ids that end right after the direction letter)")
		n := 0
		for _, fs := range collectFieldStores(c.regionOf(upd), "proto.TripDescriptor") {
			if fs.field != "StartTime" {
				continue
			}
			n++
			expr := b.bind(fs.store.Val)
			gs := guardStrings(b, fs.store.Block())
			okSrc := strings.Contains(expr, "FindStringSubmatch(global:TripIDRegex,proto:TripDescriptor.TripId?)[const:1]") && strings.Contains(expr, `fmt.Sprintf(const:"%02d:%02d:%02d"`)
			okGuard := hasGuard(gs, "+", "FindStringSubmatch(global:TripIDRegex", "!= const:nil") || hasGuard(gs, "-", "FindStringSubmatch(global:TripIDRegex", "== const:nil")
			// integer arithmetic only between the match and the formatted values
			okInt := !usesFloat(fs.store.Val, map[ssa.Value]bool{}, 0)
			c.Check(okSrc && okGuard, "NYCT", fname, "start time derived from the trip id's origin time", p.ipos(fs.store), "HH:MM:SS formatted from group 1 of TripIDRegex, only when the id matches", "start_time is not derived from the first capture group of TripIDRegex under a successful match: "+clip(expr, 160))
			c.Check(okInt, "NYCT", fname, "origin-time arithmetic is integer arithmetic", p.ipos(fs.store), "no floating-point value between the six digits and the formatted time (hundredths of a minute are truncated exactly)", "the start time is computed through floating point: some of the 600000 origin times round to the wrong second")
			// hundredths of a minute become seconds by multiplying first and dividing afterwards (x*6/10, any a/b = 3/5): a
			// division applied to the raw number first throws its last digit away
			// the hours shown are all the hours there are: the first formatted value is the seconds since midnight
			// divided by 3600, and those seconds are the scaled origin time itself -- not a value that a helper
			// wrapped around at 24 hours or clamped (origin times up to 599999 hundredths are 99:59:59)
			{
				okHours, whyHours := false, "the formatted hours were not found"
				for _, in := range regionInstrs(c.regionOf(upd)) {
					sp, isCall := in.(*ssa.Call)
					if !isCall || calleeName(sp) != "fmt.Sprintf" || len(sp.Call.Args) < 2 {
						continue
					}
					if f, isS := constString(sp.Call.Args[0]); !isS || f != "%02d:%02d:%02d" {
						continue
					}
					var hv ssa.Value
					if sl, isSl := sp.Call.Args[1].(*ssa.Slice); isSl {
						if arr, isArr := sl.X.(*ssa.Alloc); isArr {
							for _, ref := range *arr.Referrers() {
								if ia, isIA := ref.(*ssa.IndexAddr); isIA {
									if k, isK := constInt(ia.Index); isK && k == 0 {
										for _, r2 := range *ia.Referrers() {
											if st, isSt := r2.(*ssa.Store); isSt {
												hv = st.Val
											}
										}
									}
								}
							}
						}
					}
					strip := func(v ssa.Value) ssa.Value {
						for i := 0; i < 6; i++ {
							switch x := v.(type) {
							case *ssa.MakeInterface:
								v = x.X
							case *ssa.Convert:
								v = x.X
							case *ssa.ChangeType:
								v = x.X
							default:
								return v
							}
						}
						return v
					}
					if hv == nil {
						continue
					}
					// from the formatted hours down to the parsed number: only multiplications and divisions by constants
					// (hours = parsed * 6 / 10 / 3600, in whatever steps), no helper, no remainder, no merge of values
					num, den := int64(1), int64(1)
					cur := strip(hv)
					whyHours = ""
					for step := 0; step < 12 && whyHours == ""; step++ {
						if ex, isEx := cur.(*ssa.Extract); isEx {
							if cl, isCl := ex.Tuple.(*ssa.Call); isCl && calleeName(cl) == "strconv.Atoi" {
								break
							}
						}
						if prm, isPrm := cur.(*ssa.Parameter); isPrm {
							// the arithmetic sits in a helper: go on with what its one caller passes
							if args := paramArgs(prm); len(args) == 1 {
								cur = strip(args[0])
								continue
							}
						}
						bo, isBo := cur.(*ssa.BinOp)
						if !isBo {
							whyHours = "the seconds since midnight pass through " + descr(cur) + " before the hours are taken (a wrap-around at 24 hours or a clamp changes origin times from 144000 on)"
							break
						}
						k, isK := constInt(bo.Y)
						switch {
						case bo.Op == token.QUO && isK && k > 0:
							den *= k
						case bo.Op == token.MUL && isK && k > 0:
							num *= k
						default:
							whyHours = "the hours are computed with `" + canon(bo) + "`, not by scaling and dividing the origin time"
						}
						cur = strip(bo.X)
					}
					if whyHours == "" {
						if den == num*6000 {
							okHours = true
						} else {
							whyHours = fmt.Sprintf("the hours are the parsed number times %d/%d, not 6/36000", num, den)
						}
					}
				}
				c.Check(okHours, "NYCT", fname, "hours of the start time are not reduced", p.ipos(fs.store), "hours = (scaled origin time) / 3600, on the scaled value itself", whyHours)
			}
			if okInt {
				okScale, whyScale := scaledBeforeDivided(regionInstrs(c.regionOf(upd)))
				c.Check(okScale, "NYCT", fname, "hundredths of a minute are scaled to seconds before anything is divided", p.ipos(fs.store), "the parsed number is multiplied by a and the product divided by b with a/b = 6/10; nothing else is computed from the raw number", whyScale)
			}
		}
		if n == 0 {
			c.Violated("NYCT", fname, "start time derived from the trip id's origin time", p.pos(upd.Pos()), "start_time is never derived")
		}
	}
	// the answer handed to the stale-trip filter is the descriptor's is_assigned flag, on every path that has the descriptor
	if upd.Signature.Results().Len() == 1 {
		fname := shortName(upd)
		bad := ""
		n := 0
		checkVal := func(v ssa.Value, at *ssa.BasicBlock, pos string) {
			n++
			gs := guardStrings(b, at)
			if k, isC := v.(*ssa.Const); isC {
				if bv, isB := constBool(k); isB && !bv && hasGuard(gs, "-", "proto.HasExtension(", "E_NyctTripDescriptor") {
					return
				}
				bad = "the constant " + canon(v) + " is returned at " + pos + " although the NYCT descriptor is present"
				return
			}
			if e := b.bind(v); !strings.Contains(e, "proto:NyctTripDescriptor.IsAssigned") {
				bad = "the value returned at " + pos + " is " + clip(e, 80) + ", not the descriptor's is_assigned"
			}
		}
		for _, blk := range upd.Blocks {
			ret, ok := blk.Instrs[len(blk.Instrs)-1].(*ssa.Return)
			if !ok {
				continue
			}
			if phi, isPhi := ret.Results[0].(*ssa.Phi); isPhi && phi.Block() == blk {
				for i, e := range phi.Edges {
					checkVal(e, blk.Preds[i], p.ipos(ret))
				}
			} else {
				checkVal(ret.Results[0], blk, p.ipos(ret))
			}
		}
		c.Check(bad == "" && n > 0, "NYCT", fname, "reports the descriptor's is_assigned", p.pos(upd.Pos()), fmt.Sprintf("%d returned values: false without the NYCT descriptor, GetIsAssigned() otherwise", n), bad+": the stale-trip filter then sees an assigned trip as unassigned (or the reverse)")
	}
	// vehicle descriptor only when assigned, id = train id
	{
		fname := shortName(upd)
		n := 0
		for _, blk := range upd.Blocks {
			for _, in := range blk.Instrs {
				call, ok := in.(*ssa.Call)
				if !ok {
					continue
				}
				// the call that puts the descriptor on the entity -- made here, or by a helper of the package that is
				// called here (the guard is then the one of the helper's call)
				fnsWithStores := []*ssa.Function{upd}
				inner := call
				var selfBuilt *ssa.Function
				if !setsVehicleDescriptor(call) {
					h := staticCallee(call)
					if h == nil || !c.P.isModuleFn(h) || fnPkgPath(h) != fnPkgPath(upd) || len(h.Blocks) == 0 {
						continue
					}
					inner = nil
					for _, hb := range h.Blocks {
						for _, hin := range hb.Instrs {
							if hc, isCall := hin.(*ssa.Call); isCall && setsVehicleDescriptor(hc) && len(dominatingConds(hb)) == 0 {
								inner = hc
							}
						}
					}
					if inner == nil && len(descriptorLiterals(h)) > 0 && storesVehicleField(h) {
						// the helper is handed the identifier and builds the descriptor itself
						if _, nst := descriptorKeptIntact(c, h); nst > 0 {
							inner, selfBuilt = call, h
						}
					}
					if inner == nil {
						continue
					}
					fnsWithStores = append(fnsWithStores, h)
				}
				n++
				gs := guardStrings(b, blk)
				okG := hasGuard(gs, "+", "proto:NyctTripDescriptor.IsAssigned")
				desc := ""
				if selfBuilt == nil {
					desc = b.bind(inner.Call.Args[1])
				}
				var idExpr string
				for _, fs := range collectFieldStores(fnsWithStores, "proto.VehicleDescriptor") {
					if fs.field == "Id" {
						if selfBuilt != nil && fs.fn == selfBuilt {
							var as []string
							for _, a := range call.Call.Args {
								as = append(as, b.bind(a))
							}
							idExpr = b.withArgs(selfBuilt, as).bind(fs.store.Val)
						} else {
							idExpr = b.bind(fs.store.Val)
						}
					}
				}
				call = inner
				c.Check(okG && strings.Contains(idExpr, "proto:NyctTripDescriptor.TrainId"), "NYCT", fname, "assigned trips get a vehicle whose id is the train id", p.ipos(call), "setVehicleDescriptor under GetIsAssigned(), Id <- GetTrainId()", "the vehicle descriptor is set without the trip being assigned, or its id is not the train id ("+clip(idExpr, 60)+" / "+clip(desc, 40)+")")
				// and the setter puts that very descriptor on the entity, unmodified
				if setter := staticCallee(call); setter != nil && len(setter.Blocks) > 0 {
					bad, nst := descriptorKeptIntact(c, setter)
					c.Check(bad == "" && nst > 0, "NYCT", shortName(setter), "the derived vehicle descriptor reaches the entity unmodified", p.pos(setter.Pos()), fmt.Sprintf("%d stores of the descriptor parameter into the entity's vehicle field; the descriptor is not written to or handed to a mutating call on the way", nst), "the descriptor whose id is the train id is changed before it is put on the entity: "+bad)
				}
			}
		}
		if n == 0 {
			c.Violated("NYCT", fname, "assigned trips get a vehicle whose id is the train id", p.pos(upd.Pos()), "no vehicle descriptor is ever set")
		}
	}
	// X2: M-train fix
	{
		fname := shortName(fix)
		wantStations := []string{"M11", "M12", "M13", "M14", "M16", "M18"}
		n := 0
		for _, fs := range collectFieldStores([]*ssa.Function{fix}, "proto.TripUpdate_StopTimeUpdate") {
			n++
			gs := guardStrings(b, fs.store.Block())
			okRoute := hasGuard(gs, "-", "proto:TripDescriptor.RouteId", `!= const:"M"`) || hasGuard(gs, "+", "proto:TripDescriptor.RouteId", `== const:"M"`)
			okLen := hasGuard(gs, "-", "len(proto:TripUpdate_StopTimeUpdate.StopId", "!= const:4") || hasGuard(gs, "+", "len(proto:TripUpdate_StopTimeUpdate.StopId", "== const:4")
			// membership in the station set: a table lookup or a predicate helper, whichever way it is written
			var stations []string
			okTable := false
			// every membership test the store is under -- directly, or inside a (value, ok) helper whose ok is tested
			// here (the tests common to the helper's `return .., true` exits); the one about the station part counts
			type memb struct {
				set  []string
				subj string
			}
			var membs []memb
			var gather func(conds []condEdge, bb *binder, d int)
			gather = func(conds []condEdge, bb *binder, d int) {
				for _, ce := range conds {
					if ce.Composite {
						continue
					}
					cond, val := ce.Cond, ce.Val
					if u, isNot := cond.(*ssa.UnOp); isNot && u.Op == token.NOT {
						cond, val = u.X, !val
					}
					if set, subj, ok := c.membershipSet(cond); ok && val {
						membs = append(membs, memb{set, bindSubject(bb, subj, cond)})
					}
					ex, isEx := cond.(*ssa.Extract)
					if !isEx || !val || d > 1 {
						continue
					}
					call, isCall := ex.Tuple.(*ssa.Call)
					if !isCall || call.Call.IsInvoke() {
						continue
					}
					h := call.Call.StaticCallee()
					if h == nil || !c.P.isModuleFn(h) || len(h.Blocks) == 0 || len(h.Params) != len(call.Call.Args) {
						continue
					}
					var args []string
					for _, a := range call.Call.Args {
						args = append(args, bb.bind(a))
					}
					sub := bb.withArgs(h, args)
					first := true
					var common []condEdge
					for _, hb := range h.Blocks {
						ret, isRet := hb.Instrs[len(hb.Instrs)-1].(*ssa.Return)
						if !isRet || ex.Index >= len(ret.Results) {
							continue
						}
						if k, isC := ret.Results[ex.Index].(*ssa.Const); isC {
							if bv, _ := constBool(k); !bv {
								continue
							}
						}
						dc := dominatingConds(hb)
						if first {
							common, first = dc, false
							continue
						}
						var keep []condEdge
						for _, a := range common {
							for _, b2 := range dc {
								if a.Cond == b2.Cond && a.Val == b2.Val {
									keep = append(keep, a)
								}
							}
						}
						common = keep
					}
					gather(common, sub, d+1)
				}
			}
			gather(dominatingConds(fs.store.Block()), b, 0)
			for _, m := range membs {
				isStation := strings.Contains(m.subj, "slice(proto:TripUpdate_StopTimeUpdate.StopId")
				if isStation || stations == nil {
					stations = nil
					for _, k := range m.set {
						stations = append(stations, strings.Trim(k, "\""))
					}
					okTable = isStation
				}
				if isStation {
					break
				}
			}
			c.Check(strings.Join(stations, ",") == strings.Join(wantStations, ","), "NYCT", fname, "affected stations are M11-M14, M16, M18", p.pos(fix.Pos()), strings.Join(stations, ","), "the station set is "+strings.Join(stations, ",")+", documented set is "+strings.Join(wantStations, ","))
			expr := b.bind(fs.store.Val)
			// the character table: under 'N' (78) store 'S' (83), under 'S' store 'N', nothing else
			charOK := checkSwapTable(fs.store) || swapByAlternatives(b, fs.store.Val)
			c.Check(okRoute && okLen && okTable, "NYCT", fname, "platform fix limited to route M, 4-character ids at the listed stations", p.ipos(fs.store), "store dominated by route == \"M\", len(stopID) == 4 and membership in the station table", "the platform rewrite is not confined to route M / four-character stop ids / the listed stations")
			c.Check(charOK, "NYCT", fname, "platform fix swaps N and S only", p.ipos(fs.store), "N -> S, S -> N, anything else left alone: the fix is its own inverse", "the character table is not the involution N<->S (e.g. any non-N suffix is rewritten to N): "+clip(expr, 120))
			c.Check(strings.Contains(expr, "slice(proto:TripUpdate_StopTimeUpdate.StopId") && fs.field == "StopId", "NYCT", fname, "platform fix keeps the station part", p.ipos(fs.store), "new id = stopID[:3] + swapped direction", "the rewritten stop id does not keep the first three characters")
		}
		if n != 1 {
			c.Violated("NYCT", fname, "platform fix writes only the stop id", p.pos(fix.Pos()), fmt.Sprintf("%d stores into stop time updates (exactly the stop id rewrite is expected)", n))
		}
		// applied unless disabled
		okOpt := false
		for _, blk := range updTrip.Blocks {
			for _, in := range blk.Instrs {
				if call, ok := in.(*ssa.Call); ok && staticCallee(call) == fix {
					gs := guardStrings(b, blk)
					okOpt = hasGuard(gs, "-", "PreserveMTrainPlatformsInBushwick") && len(gs) == 1
				}
			}
		}
		c.Check(okOpt, "NYCT", shortName(updTrip), "platform fix applied unless disabled", p.pos(updTrip.Pos()), "fixMTrainPlatformsInBushwick called exactly when !PreserveMTrainPlatformsInBushwick", "the M-train fix is not controlled only by the PreserveMTrainPlatformsInBushwick option")
	}
	// X4: stale filter table
	{
		fname := shortName(stale)
		tb, err := c.extractTableComposed(stale, 0)
		if err != nil {
			c.Undecided("NYCT", fname, "stale filter table", p.pos(stale.Pos()), err.Error())
		} else {
			var rows []string
			for _, r := range tb.rows {
				rows = append(rows, condsString(r.conds)+" -> "+r.results[0])
			}
			sort.Strings(rows)
			// the test is handed is_assigned, or the caller asks it only for unassigned trips (checked below, where it is
			// called): then the rows are the ones for "not assigned" without that condition
			callerTestsAssigned := len(stale.Params) == 2
			pA, pS, pF := "", "", ""
			if callerTestsAssigned {
				pS, pF = stale.Params[0].Name(), stale.Params[1].Name()
			} else {
				pA, pS, pF = stale.Params[0].Name(), stale.Params[1].Name(), stale.Params[2].Name()
			}
			dep := "call:GetTime(call:GetDeparture(*(" + pS + "[const(0)])))"
			arr := "call:GetTime(call:GetArrival(*(" + pS + "[const(0)])))"
			feed := "conv[int64](" + pF + ")"
			nz := "len(" + pS + ")!=0"
			want := normaliseStaleRows([]string{
				pA + "==true -> const:false",
				pA + "!=true && len(" + pS + ")==0 -> const:true",
				pA + "!=true && " + nz + " && " + dep + "==0 && " + arr + "==0 -> const:true",
				pA + "!=true && " + nz + " && " + dep + "==0 && " + arr + "!=0 && (" + arr + "<" + feed + ") -> const:true",
				pA + "!=true && " + nz + " && " + dep + "==0 && " + arr + "!=0 && !((" + arr + "<" + feed + ")) -> const:false",
				pA + "!=true && " + nz + " && " + dep + "!=0 && (" + dep + "<" + feed + ") -> const:true",
				pA + "!=true && " + nz + " && " + dep + "!=0 && !((" + dep + "<" + feed + ")) -> const:false",
			})
			if callerTestsAssigned {
				want = normaliseStaleRows([]string{
					"len(" + pS + ")==0 -> const:true",
					nz + " && " + dep + "==0 && " + arr + "==0 -> const:true",
					nz + " && " + dep + "==0 && " + arr + "!=0 && (" + arr + "<" + feed + ") -> const:true",
					nz + " && " + dep + "==0 && " + arr + "!=0 && !((" + arr + "<" + feed + ")) -> const:false",
					nz + " && " + dep + "!=0 && (" + dep + "<" + feed + ") -> const:true",
					nz + " && " + dep + "!=0 && !((" + dep + "<" + feed + ")) -> const:false",
				})
			}
			sort.Strings(want)
			got := normaliseStaleRows(rows)
			same := strings.Join(got, "\n") == strings.Join(want, "\n")
			whyNot := ""
			if !same {
				// not the same rows: do they say the same? (a helper that splits cases differently, a sentinel value)
				same, whyNot = tablesEquivalent(got, want)
			}
			_ = whyNot
			c.Check(same, "NYCT", fname, "stale = unassigned and first-stop time (departure, else arrival) missing or before the feed time", p.pos(stale.Pos()), fmt.Sprintf("%d-row decision table matches the definition (strict <, departure preferred, fallback on a zero time)", len(got)), "decision table differs from the definition: "+whyNot+"\n  got:  "+strings.Join(got, "\n        ")+"\n  want: "+strings.Join(want, "\n        "))
		}
		// UpdateTrip: skip only with the extension present and the option set
		tb2, err := extractTable(updTrip)
		ok := err == nil
		if ok {
			for _, r := range tb2.rows {
				cs := condsString(r.conds)
				res := r.results[0]
				if strings.Contains(res, "const:true") || (!strings.HasPrefix(res, "const:") && !strings.Contains(cs, "HasExtension")) {
					_ = res
				}
			}
		}
		// ShouldSkip: every value it can be given is `false` or the answer of the stale test; the stale test is asked only
		// with the extension present and filtering enabled, about (is_assigned from updateTripOrVehicle, the trip's stop
		// time updates, the feed time); and its answer is not dropped: the store that records it lies on every path from
		// the test to a return, into the very result that is returned
		var skipExpr string
		okSkip := true
		nStale := 0
		checkStaleCall := func(call *ssa.Call, at *ssa.BasicBlock) {
			nStale++
			gs := guardStrings(b, at)
			if !(hasGuard(gs, "+", "proto.HasExtension(", "E_NyctTripDescriptor") && hasGuard(gs, "+", "FilterStaleUnassignedTrips")) {
				okSkip = false
			}
			if len(call.Call.Args) == 2 {
				// the caller tests is_assigned itself: the stale test is asked on the "not assigned" edge only
				a1 := b.bind(call.Call.Args[0])
				if !hasGuard(gs, "-", "updateTripOrVehicle(") || !strings.Contains(a1, "proto:TripUpdate.StopTimeUpdate") || call.Call.Args[1] != ssa.Value(updTrip.Params[2]) {
					okSkip = false
				}
				return
			}
			a0 := b.bind(call.Call.Args[0])
			a1 := b.bind(call.Call.Args[1])
			if !strings.Contains(a0, "updateTripOrVehicle(") || !strings.Contains(a1, "proto:TripUpdate.StopTimeUpdate") || call.Call.Args[2] != ssa.Value(updTrip.Params[2]) {
				okSkip = false
			}
		}
		for _, fs := range collectFieldStores([]*ssa.Function{updTrip}, "extensions.UpdateTripResult") {
			if fs.field != "ShouldSkip" {
				continue
			}
			skipExpr = b.bind(fs.store.Val)
			var leaves func(v ssa.Value, at *ssa.BasicBlock, d int)
			leaves = func(v ssa.Value, at *ssa.BasicBlock, d int) {
				switch x := v.(type) {
				case *ssa.Phi:
					if d > 6 {
						okSkip = false
						return
					}
					for i, ed := range x.Edges {
						leaves(ed, x.Block().Preds[i], d+1)
					}
				case *ssa.Const:
					if bv, isB := constBool(x); !isB || bv {
						okSkip = false
					}
				case *ssa.Call:
					if h := staticCallee(x); h != stale && h != nil && c.P.isModuleFn(h) && len(h.Blocks) > 0 && h.Signature.Results().Len() == 1 && len(h.Params) == len(x.Call.Args) && d < 3 {
						// the decision lives in a helper: each value it can return is `false` or the answer of the stale
						// test asked under the same guards, read with the helper's parameters standing for the arguments
						var args []string
						for _, a := range x.Call.Args {
							args = append(args, b.bind(a))
						}
						sub := b.withArgs(h, args)
						feedPrm := -1
						for k, a := range x.Call.Args {
							if a == ssa.Value(updTrip.Params[2]) {
								feedPrm = k
							}
						}
						eachReturned(h, 0, func(rv ssa.Value, rat *ssa.BasicBlock, ret *ssa.Return) {
							switch y := rv.(type) {
							case *ssa.Const:
								if bv, isB := constBool(y); !isB || bv {
									okSkip = false
								}
							case *ssa.Call:
								if staticCallee(y) != stale {
									okSkip = false
									return
								}
								nStale++
								gs := guardStrings(sub, rat)
								if !(hasGuard(gs, "+", "proto.HasExtension(", "E_NyctTripDescriptor") && hasGuard(gs, "+", "FilterStaleUnassignedTrips")) {
									okSkip = false
								}
								if len(y.Call.Args) != 3 {
									okSkip = false
									return
								}
								a0, a1 := sub.bind(y.Call.Args[0]), sub.bind(y.Call.Args[1])
								if !strings.Contains(a0, "updateTripOrVehicle(") || !strings.Contains(a1, "proto:TripUpdate.StopTimeUpdate") || feedPrm < 0 || y.Call.Args[2] != ssa.Value(h.Params[feedPrm]) {
									okSkip = false
								}
							default:
								okSkip = false
							}
						})
					} else if h != stale {
						okSkip = false
						return
					} else {
						checkStaleCall(x, at)
					}
					// the answer reaches the returned result on every path
					stBlk, callBlk := fs.store.Block(), x.Block()
					base := addrRoot(fs.store.Addr)
					for _, blk := range updTrip.Blocks {
						ret, isRet := blk.Instrs[len(blk.Instrs)-1].(*ssa.Return)
						if !isRet || !canReach(callBlk, blk) {
							continue
						}
						if callBlk != stBlk && canReachAvoiding(callBlk, blk, stBlk) {
							okSkip = false
						}
						if ld, isLd := ret.Results[0].(*ssa.UnOp); !isLd || addrRoot(ld.X) != base {
							okSkip = false
						}
					}
				default:
					okSkip = false
				}
			}
			leaves(fs.store.Val, fs.store.Block(), 0)
		}
		if nStale == 0 {
			okSkip = false
		}
		c.Check(okSkip, "NYCT", shortName(updTrip), "a trip is dropped only with NYCT data, with filtering enabled, when stale", p.pos(updTrip.Pos()), "ShouldSkip = HasExtension && FilterStaleUnassignedTrips && isStaleUnassignedTrip(isAssigned, stop time updates, feed time)", "ShouldSkip is computed differently: "+clip(skipExpr, 200))
	}
}

// normaliseStaleRows: within each row the atoms are de-duplicated and sorted; rows are sorted.
func normaliseStaleRows(rows []string) []string {
	var out []string
	for _, r := range rows {
		i := strings.LastIndex(r, " -> ")
		atoms := strings.Split(r[:i], " && ")
		seen := map[string]bool{}
		var u []string
		for _, a := range atoms {
			if !seen[a] {
				seen[a] = true
				u = append(u, a)
			}
		}
		sort.Strings(u)
		out = append(out, strings.Join(u, " && ")+r[i:])
	}
	sort.Strings(out)
	return out
}

func firstGroupIsSixDigits(rx *syntax.Regexp) bool {
	// find capture 1
	var cap1 *syntax.Regexp
	var walk func(r *syntax.Regexp)
	walk = func(r *syntax.Regexp) {
		if r.Op == syntax.OpCapture && r.Cap == 1 {
			cap1 = r
		}
		for _, s := range r.Sub {
			walk(s)
		}
	}
	walk(rx)
	if cap1 == nil || len(cap1.Sub) != 1 {
		return false
	}
	rep := cap1.Sub[0]
	if rep.Op != syntax.OpRepeat || rep.Min != 6 || rep.Max != 6 || len(rep.Sub) != 1 {
		return false
	}
	cc := rep.Sub[0]
	if cc.Op != syntax.OpCharClass || len(cc.Rune) != 2 || cc.Rune[0] != '0' || cc.Rune[1] != '9' {
		return false
	}
	// anchored at the start: the pattern begins with ^ followed by the capture
	if rx.Op == syntax.OpConcat && len(rx.Sub) >= 2 && rx.Sub[0].Op == syntax.OpBeginText && rx.Sub[1] == cap1 {
		return true
	}
	return false
}

func usesFloat(v ssa.Value, seen map[ssa.Value]bool, d int) bool {
	if v == nil || seen[v] || d > 30 {
		return false
	}
	seen[v] = true
	if strings.HasPrefix(v.Type().String(), "float") {
		return true
	}
	switch x := v.(type) {
	case *ssa.BinOp:
		return usesFloat(x.X, seen, d+1) || usesFloat(x.Y, seen, d+1)
	case *ssa.Convert:
		return usesFloat(x.X, seen, d+1)
	case *ssa.ChangeType:
		return usesFloat(x.X, seen, d+1)
	case *ssa.MakeInterface:
		return usesFloat(x.X, seen, d+1)
	case *ssa.UnOp:
		return usesFloat(x.X, seen, d+1)
	case *ssa.Phi:
		for _, e := range x.Edges {
			if usesFloat(e, seen, d+1) {
				return true
			}
		}
	case *ssa.Call:
		for _, a := range x.Call.Args {
			if usesFloat(a, seen, d+1) {
				return true
			}
		}
	case *ssa.Slice:
		return usesFloat(x.X, seen, d+1)
	case *ssa.Alloc:
		for _, r := range *x.Referrers() {
			switch y := r.(type) {
			case *ssa.Store:
				if y.Addr == ssa.Value(x) && usesFloat(y.Val, seen, d+1) {
					return true
				}
			case *ssa.IndexAddr:
				for _, r2 := range *y.Referrers() {
					if st, ok := r2.(*ssa.Store); ok && usesFloat(st.Val, seen, d+1) {
						return true
					}
				}
			}
		}
	case *ssa.Extract:
		return usesFloat(x.Tuple, seen, d+1)
	}
	return false
}

// checkSwapTable: the stored id's last character is phi('S' under ==‘N’, 'N' under =='S'), and other characters never reach the store.
func checkSwapTable(st *ssa.Store) bool {
	// find the rune phi feeding the conversion
	var phi *ssa.Phi
	var find func(v ssa.Value, d int)
	find = func(v ssa.Value, d int) {
		if v == nil || d > 12 || phi != nil {
			return
		}
		switch x := v.(type) {
		case *ssa.Phi:
			if t := x.Type().String(); t == "rune" || t == "int32" || t == "byte" || t == "uint8" || t == "string" {
				phi = x
				return
			}
			for _, e := range x.Edges {
				find(e, d+1)
			}
		case *ssa.BinOp:
			find(x.X, d+1)
			find(x.Y, d+1)
		case *ssa.Convert:
			find(x.X, d+1)
		case *ssa.Alloc:
			for _, sv := range cellStores(x) {
				find(sv, d+1)
			}
		case *ssa.UnOp:
			find(x.X, d+1)
		}
	}
	find(st.Val, 0)
	if phi == nil || len(phi.Edges) != 2 {
		return false
	}
	pairs := map[int64]int64{}
	for i, ed := range phi.Edges {
		k, ok := constInt(ed)
		if !ok {
			// a one-character string constant
			if sv, isS := constString(ed); isS && len(sv) == 1 {
				k, ok = int64(sv[0]), true
			}
		}
		if !ok {
			return false
		}
		pred := phi.Block().Preds[i]
		// the condition under which this edge is taken: stopID[3] == c
		found := false
		conds := dominatingConds(pred)
		if iff, ok := pred.Instrs[len(pred.Instrs)-1].(*ssa.If); ok && len(pred.Succs) == 2 && pred.Succs[0] != pred.Succs[1] {
			conds = append(conds, condEdge{Cond: iff.Cond, Val: pred.Succs[0] == phi.Block(), If: iff})
		}
		for _, ce := range conds {
			if bo, ok := ce.Cond.(*ssa.BinOp); ok && bo.Op == token.EQL && ce.Val {
				if c2, ok := constInt(bo.Y); ok && strings.Contains(canon(bo.X), "[const(3)]") {
					pairs[c2] = k
					found = true
				}
			}
		}
		if !found {
			return false
		}
	}
	return len(pairs) == 2 && pairs['N'] == 'S' && pairs['S'] == 'N'
}

// ---------------------------------------------------------------- C17

func runNyctAlerts(c *Ctx) {
	p := c.P
	b := newBinder(c)
	b.showBodies = true
	ua := c.anchor("nyctalerts:(extension).UpdateAlert")
	ue := c.anchor("nyctalerts:(extension).updateElevatorAlert")
	gp := c.anchor("nyctalerts:getPriorityFromInformedEntity")
	bm := c.anchor("nyctalerts:buildMetadata")
	if ua == nil || ue == nil || gp == nil || bm == nil {
		return
	}
	runAlertStateConfinement(c, ua)
	runElevatorStepFirst(c, ua, ue)
	// every informed entity is asked for its Mercury priority: in the loop that does so, no path around the loop goes
	// past the call (a selector skipped beforehand -- "has no route, stop or trip" -- is an agency-wide or route-type
	// selector whose priority then neither sets the effect nor drops the alert)
	{
		nLoops := 0
		for _, g := range c.regionOf(ua) {
			if fnPkgPath(g) != fnPkgPath(ua) {
				continue
			}
			for _, l := range naturalLoops(g) {
				var site *ssa.BasicBlock
				for blk := range l.Blocks {
					for _, in := range blk.Instrs {
						if call, ok := in.(*ssa.Call); ok && staticCallee(call) == gp {
							site = blk
						}
					}
				}
				if site == nil {
					continue
				}
				nLoops++
				skipped := false
				pathsWithin(l.Header, l, func(path []*ssa.BasicBlock, back bool) {
					if !back {
						return
					}
					has := false
					for _, pb := range path {
						if pb == site {
							has = true
						}
					}
					if !has {
						skipped = true
					}
				})
				c.Check(!skipped, "ALRT", shortName(g), "every informed entity is asked for its priority", p.pos(l.Header.Instrs[0].Pos()), "no path around the loop over the informed entities goes past "+gp.Name(), "some informed entities are skipped before their Mercury priority is read: their priority neither sets the effect nor drops a timetabled no-service alert")
			}
		}
		if nLoops == 0 {
			c.Undecided("ALRT", shortName(ua), "every informed entity is asked for its priority", p.pos(ua.Pos()), "no loop that calls "+gp.Name()+" was found")
		}
	}
	// Y1: alerts are dropped only with the option set and for an entity whose Mercury priority is one of the three
	// timetabled no-service priorities -- the set may be a map literal or a predicate function
	var wantPrio []string
	for _, n := range []string{"MercuryEntitySelector_PRIORITY_NO_MIDDAY_SERVICE", "MercuryEntitySelector_PRIORITY_NO_OVERNIGHT_SERVICE", "MercuryEntitySelector_PRIORITY_NO_WEEKEND_SERVICE"} {
		wantPrio = append(wantPrio, strings.TrimPrefix(c.constOf("proto", n), "const:"))
	}
	sort.Strings(wantPrio)
	fname := shortName(ua)
	nSkip := 0
	// the places where `true` (drop the alert) is answered: in UpdateAlert itself, or -- when UpdateAlert answers true
	// because a predicate helper of the package did -- in that helper
	type skipSite struct {
		fn  *ssa.Function
		blk *ssa.BasicBlock
		bb  *binder
	}
	var sites []skipSite
	var collect func(g *ssa.Function, bb *binder, d int)
	collect = func(g *ssa.Function, bb *binder, d int) {
		for _, blk := range g.Blocks {
			ret, isRet := blk.Instrs[len(blk.Instrs)-1].(*ssa.Return)
			if !isRet || len(ret.Results) != 1 {
				continue
			}
			k, isC := ret.Results[0].(*ssa.Const)
			if !isC {
				continue
			}
			if bv, _ := constBool(k); !bv {
				continue
			}
			gs := guardStrings(bb, blk)
			if hasGuard(gs, "+", "updateElevatorAlert(") || hasGuardClass(bb, gs, "+", "(nyctalerts._,*string,*proto.Alert)→(bool)") {
				continue // the elevator path
			}
			delegated := false
			if d < 2 {
				for _, ce := range dominatingConds(blk) {
					cnd, val := ce.Cond, ce.Val
					if u, isNot := cnd.(*ssa.UnOp); isNot && u.Op == token.NOT {
						cnd, val = u.X, !val
					}
					hc, isCall := cnd.(*ssa.Call)
					if !isCall || !val || ce.Composite {
						continue
					}
					h := staticCallee(hc)
					if h == nil || h == ue || !c.P.isModuleFn(h) || fnPkgPath(h) != fnPkgPath(ua) || len(h.Blocks) == 0 || h.Signature.Results().Len() != 1 || len(h.Params) != len(hc.Call.Args) {
						continue
					}
					if bt, ok := h.Signature.Results().At(0).Type().Underlying().(*types.Basic); !ok || bt.Kind() != types.Bool {
						continue
					}
					// a helper that decides about the alert (it is handed the alert), not a membership predicate on a
					// priority -- that one is read as a set by the check below
					takesAlert := false
					for _, prm := range h.Params {
						if shortType(prm.Type()) == "*proto.Alert" {
							takesAlert = true
						}
					}
					if !takesAlert {
						continue
					}
					var args []string
					for _, a := range hc.Call.Args {
						args = append(args, bb.bind(a))
					}
					sub := bb.withArgs(h, args)
					sub.showBodies = bb.showBodies
					collect(h, sub, d+1)
					delegated = true
				}
			}
			if !delegated {
				sites = append(sites, skipSite{g, blk, bb})
			}
		}
	}
	collect(ua, b, 0)
	for _, site := range sites {
		blk, sfn, sb := site.blk, site.fn, site.bb
		gs := guardStrings(sb, blk)
		nSkip++
		// the decision is taken per informed entity: the return sits in a loop over all of the alert's informed entities
		inEntityLoop := false
		for _, l := range naturalLoops(sfn) {
			// the return leaves the loop, so it is not one of the loop's blocks: it must hang off the loop body
			if !(l.Blocks[blk] || (len(l.Header.Succs) > 0 && l.Blocks[l.Header.Succs[0]] && l.Header.Succs[0].Dominates(blk))) {
				continue
			}
			for lb := range l.Blocks {
				for _, in := range lb.Instrs {
					if ia, isIA := in.(*ssa.IndexAddr); isIA && rangeIndexSeq(ia.Index) != nil && strings.Contains(sb.bind(ia.X), "proto:Alert.InformedEntity") {
						inEntityLoop = true
					}
				}
			}
		}
		if !inEntityLoop {
			c.Violated("ALRT", fname, "every informed entity's priority is considered", p.pos(blk.Instrs[0].Pos()), "the skip decision is not taken inside a loop over all informed entities of the alert: an entity with a timetabled no-service priority can be overlooked (e.g. when only the first entity's priority is read)")
		}
		okOpt := hasGuard(gs, "+", "SkipTimetabledNoServiceAlerts")
		okSet := false
		var got []string
		for _, ce := range dominatingConds(blk) {
			if ce.Composite || !ce.Val {
				continue
			}
			if set, subj, ok := c.membershipSet(ce.Cond); ok {
				got = set
				sort.Strings(got)
				okSet = strings.Join(got, ",") == strings.Join(wantPrio, ",") && strings.Contains(sb.bind(subj), "proto:Alert.InformedEntity")
			}
		}
		c.Check(okOpt && okSet, "ALRT", fname, "alerts dropped exactly for timetabled no-service priorities with the option set", p.pos(blk.Instrs[0].Pos()), "return true dominated by opts.SkipTimetabledNoServiceAlerts and membership of the entity's priority in {no midday, no overnight, no weekend service}", fmt.Sprintf("an alert can be dropped without the option being set or for a priority outside the timetabled no-service set (set found: %v, expected %v)", got, wantPrio))
	}
	if nSkip == 0 {
		c.Violated("ALRT", fname, "timetabled no-service alerts can be skipped", p.pos(ua.Pos()), "no path drops timetabled no-service alerts")
	}
	// the alert is kept (false) only after every informed entity has been examined: an earlier `return false` skips the
	// effect mapping and the no-service decision for alerts that need them
	{
		var entityLoops []*Loop
		for _, l := range naturalLoops(ua) {
			for lb := range l.Blocks {
				for _, in := range lb.Instrs {
					if ia, isIA := in.(*ssa.IndexAddr); isIA && rangeIndexSeq(ia.Index) != nil && strings.Contains(b.bind(ia.X), "proto:Alert.InformedEntity") {
						entityLoops = append(entityLoops, l)
					}
				}
			}
		}
		early := ""
		nKeep := 0
		eachReturned(ua, 0, func(v ssa.Value, at *ssa.BasicBlock, ret *ssa.Return) {
			k, isC := v.(*ssa.Const)
			if !isC {
				return
			}
			if bv, _ := constBool(k); bv {
				return
			}
			nKeep++
			after := false
			for _, l := range entityLoops {
				if l.Header.Dominates(at) && !l.Blocks[at] && !(len(l.Header.Succs) > 0 && l.Blocks[l.Header.Succs[0]] && l.Header.Succs[0].Dominates(at)) {
					after = true
				}
			}
			if !after {
				early = p.ipos(ret)
			}
		})
		if len(entityLoops) > 0 {
			c.Check(early == "" && nKeep > 0, "ALRT", fname, "alerts are kept only after all informed entities were examined", p.pos(ua.Pos()), fmt.Sprintf("all %d `false` answers come after the loop over the alert's informed entities", nKeep), "the alert is answered `false` at "+early+" before its informed entities were examined: effect mapping and the timetabled no-service decision are skipped for it")
		}
	}
	// an alert is treated as a non-elevator alert only because its id does not have the elevator form
	{
		bad := ""
		n := 0
		eachReturned(ue, 0, func(v ssa.Value, at *ssa.BasicBlock, ret *ssa.Return) {
			k, isC := v.(*ssa.Const)
			if !isC {
				return
			}
			if bv, _ := constBool(k); bv {
				return
			}
			n++
			gs := guardStrings(b, at)
			if hasGuard(gs, "+", "FindStringSubmatch(global:<*regexp.Regexp>", "== const:nil") || hasGuard(gs, "-", "FindStringSubmatch(global:<*regexp.Regexp>", "!= const:nil") ||
				hasGuard(gs, "+", "len(", "FindStringSubmatch(global:<*regexp.Regexp>", "== const:0") {
				// the only other conditions on the way may be conjuncts of the same decision; a `false` that does not
				// depend on the match at all is what is excluded
				return
			}
			bad = p.ipos(ret)
		})
		if n > 0 || bad != "" {
			c.Check(bad == "", "ALRT", shortName(ue), "ids of the elevator form are always handled as elevator alerts", p.pos(ue.Pos()), fmt.Sprintf("all %d `false` answers are under a failed match of the elevator id pattern", n), "`false` is answered at "+bad+" without the id having failed the elevator pattern: an elevator alert can fall through to the general path")
		} else {
			c.Violated("ALRT", shortName(ue), "ids of the elevator form are always handled as elevator alerts", p.pos(ue.Pos()), "no path answers `false`: every alert is treated as an elevator alert")
		}
	}
	// Y2: metadata only when requested
	for _, fs := range collectFieldStores(c.regionOf(ua), "proto.TranslatedString") {
		if fs.field != "Translation" {
			continue
		}
		gs := regionGuards(c, b, ua, fs.store.Block(), 0)
		okG := hasGuard(gs, "+", "AddNyctMetadata") && hasGuard(gs, "+", "buildMetadata(")
		c.Check(okG, "ALRT", fname, "NYCT metadata appended exactly when requested", p.ipos(fs.store), "append dominated by opts.AddNyctMetadata and a successful buildMetadata", "the metadata translation is appended without AddNyctMetadata being set")
	}
	for _, fs := range collectFieldStores(c.regionOf(ua), "proto.TranslatedString_Translation") {
		if fs.field == "Language" {
			e := b.bind(fs.store.Val)
			c.Check(strings.Contains(e, "nyctalerts/Metadata"), "ALRT", fname, "metadata language tag", p.ipos(fs.store), "Language = MetadataLanguage", "metadata is tagged with another language: "+clip(e, 80))
		}
	}
	// Y5: cause by id prefix
	for _, fs := range collectFieldStores([]*ssa.Function{ua}, "proto.Alert") {
		if fs.field != "Cause" {
			continue
		}
		got := storeAlternatives(b, fs.store.Val)
		okCause := false
		pw, al, el := "", "", ""
		for _, alt := range got {
			switch {
			case hasGuard(alt.guards, "+", `strings.HasPrefix(deref(param:<*string>),const:"lmm:planned_work")`):
				pw = alt.val
			case hasGuard(alt.guards, "+", `strings.HasPrefix(deref(param:<*string>),const:"lmm:alert")`):
				al = alt.val
			default:
				el = alt.val
			}
		}
		okCause = len(got) == 3 && pw == c.constOf("proto", "Alert_MAINTENANCE") && al == c.constOf("proto", "Alert_TECHNICAL_PROBLEM") && strings.Contains(el, "proto:Alert.Cause")
		c.Check(okCause, "ALRT", fname, "cause from the id prefix", p.ipos(fs.store), "lmm:planned_work -> MAINTENANCE, lmm:alert -> TECHNICAL_PROBLEM, otherwise the wire cause", fmt.Sprintf("the cause is not derived from the id prefix as documented: %d alternatives, planned_work -> %s, alert -> %s, otherwise %s", len(got), clip(pw, 40), clip(al, 40), clip(el, 60)))
	}
	// effect from the priority table when the priority is known
	for _, fs := range collectFieldStores([]*ssa.Function{ua}, "proto.Alert") {
		if fs.field != "Effect" {
			continue
		}
		e := b.bind(fs.store.Val)
		gs := guardStrings(b, fs.store.Block())
		c.Check(containsAll(e, "lookup(", "map[proto.MercuryEntitySelector_Priority]proto.Alert_Effect") && hasGuard(gs, "+", "lookup(", "map[proto.MercuryEntitySelector_Priority]proto.Alert_Effect"), "ALRT", fname, "effect from the Mercury priority", p.ipos(fs.store), "Effect = priortyToEffect[priority] when the table has the priority", "the effect is not taken from the priority table: "+clip(e, 100))
	}
	// Y6: priority extraction
	{
		fn := shortName(gp)
		// every (priority, true) the function can return: the priority is the parsed tail
		ok := false
		nTrue := 0
		for _, tup := range returnedTuples(gp) {
			if len(tup) != 2 {
				continue
			}
			if k, isC := tup[1].(*ssa.Const); isC {
				if bv, _ := constBool(k); !bv {
					continue
				}
			}
			nTrue++
			e := b.bind(tup[0])
			good := strings.Contains(e, "strconv.Atoi(slice(proto:MercuryEntitySelector.SortOrder?,(strings.LastIndex(proto:MercuryEntitySelector.SortOrder?,const:\":\") + const:1):)") ||
				// the same spelled with the byte search and the general integer parser, base 10
				strings.Contains(e, "strconv.ParseInt(slice(proto:MercuryEntitySelector.SortOrder?,(strings.LastIndexByte(proto:MercuryEntitySelector.SortOrder?,const:58) + const:1):),const:10,") ||
				strings.Contains(e, "strconv.Atoi(slice(proto:MercuryEntitySelector.SortOrder?,(strings.LastIndexByte(proto:MercuryEntitySelector.SortOrder?,const:58) + const:1):)") ||
				strings.Contains(e, "strconv.ParseInt(slice(proto:MercuryEntitySelector.SortOrder?,(strings.LastIndex(proto:MercuryEntitySelector.SortOrder?,const:\":\") + const:1):),const:10,")
			if nTrue == 1 {
				ok = good
			} else {
				ok = ok && good
			}
		}
		c.Check(ok, "ALRT", fn, "priority = number after the last ':' of the sort order", p.pos(gp.Pos()), "Atoi(sortOrder[LastIndex(sortOrder, \":\")+1:])", "the Mercury priority is not parsed from the tail of the sort order")
	}
	// the priority is reported missing only for the three reasons there are: no Mercury selector, no ':' in the sort
	// order, a tail that is not a number. Any further reason makes known priorities (and with them the effect and the
	// skip decision) disappear.
	{
		fn := shortName(gp)
		bad := ""
		nFalse := 0
		var scan func(g *ssa.Function, d int)
		scan = func(g *ssa.Function, d int) {
			for _, blk := range g.Blocks {
				ret, ok := blk.Instrs[len(blk.Instrs)-1].(*ssa.Return)
				if !ok || len(ret.Results) != 2 {
					continue
				}
				check := func(flag ssa.Value, gs []string) {
					k, isC := flag.(*ssa.Const)
					if !isC {
						// the answer of a helper of the library that is handed on: judged where it is made
						if ex, isEx := flag.(*ssa.Extract); isEx && ex.Index == 1 {
							if call, isCall := ex.Tuple.(*ssa.Call); isCall && !call.Call.IsInvoke() {
								if h := call.Call.StaticCallee(); h != nil && p.isModuleFn(h) && !isProtoPkg(fnPkgPath(h)) && len(h.Blocks) > 0 && h.Signature.Results().Len() == 2 && d < 3 {
									scan(h, d+1)
									return
								}
							}
						}
						// a computed flag: it must be one of the three tests itself
						e := b.bind(flag)
						if !(strings.Contains(e, "strconv.Atoi(") || strings.Contains(e, "strconv.ParseInt(") || strings.Contains(e, "strings.LastIndex") || strings.Contains(e, "proto.HasExtension(")) {
							bad = "the flag returned at " + p.ipos(ret) + " is " + clip(e, 60)
						}
						return
					}
					if bv, _ := constBool(k); bv {
						return
					}
					nFalse++
					legit := hasGuard(gs, "-", "proto.HasExtension(", "E_MercuryEntitySelector") ||
						hasGuard(gs, "+", "strings.LastIndex", "< const:0") || hasGuard(gs, "-", "strings.LastIndex", ">= const:0") ||
						hasGuard(gs, "+", "strings.LastIndex", "== const:-1") || hasGuard(gs, "-", "strings.LastIndex", "!= const:-1") ||
						hasGuard(gs, "+", "strconv.Atoi(", "#1 != const:nil") || hasGuard(gs, "-", "strconv.Atoi(", "#1 == const:nil") ||
						hasGuard(gs, "+", "strconv.ParseInt(", "#1 != const:nil") || hasGuard(gs, "-", "strconv.ParseInt(", "#1 == const:nil")
					if !legit {
						bad = "`false` is answered at " + p.ipos(ret) + " under " + clip(strings.Join(gs, " "), 160)
					}
				}
				if phi, isPhi := ret.Results[1].(*ssa.Phi); isPhi && phi.Block() == blk {
					for i, e := range phi.Edges {
						check(e, edgeGuardStrings(b, blk.Preds[i], blk))
					}
				} else {
					check(ret.Results[1], guardStrings(b, blk))
				}
			}
		}
		scan(gp, 0)
		c.Check(bad == "" && nFalse > 0, "ALRT", fn, "a priority is reported missing only when it is", p.pos(gp.Pos()), fmt.Sprintf("all %d `false` answers are under: no Mercury selector, no ':' in the sort order, or a tail that is not a number", nFalse), "the priority of an informed entity can be reported missing although the sort order carries one: "+bad+" (its effect is not mapped and a timetabled no-service alert is not skipped)")
	}
	// metadata is built only for an alert that carries the Mercury alert extension: every answer of buildMetadata
	// other than a constant `false` lies under a proto.HasExtension(alert, E_MercuryAlert) that held. (GetExtension
	// answers a typed nil for an absent extension, so a checked type assertion on its result is no such test: an
	// alert without NYCT data would get a zero-valued description appended instead of passing through unchanged.)
	{
		fn := shortName(bm)
		bad := ""
		nTrue := 0
		for _, blk := range bm.Blocks {
			ret, ok := blk.Instrs[len(blk.Instrs)-1].(*ssa.Return)
			if !ok || len(ret.Results) != 2 {
				continue
			}
			check := func(flag ssa.Value, gs []string) {
				if k, isC := flag.(*ssa.Const); isC {
					if bv, _ := constBool(k); !bv {
						return
					}
				} else if e := b.bind(flag); strings.Contains(e, "proto.HasExtension(") && strings.Contains(e, "E_MercuryAlert") {
					nTrue++
					return
				}
				nTrue++
				if !(hasGuard(gs, "+", "proto.HasExtension(", "E_MercuryAlert") || hasGuard(gs, "-", "!proto.HasExtension(", "E_MercuryAlert")) {
					bad = "the answer at " + p.ipos(ret) + " is not `false` under " + clip(strings.Join(gs, " "), 160)
				}
			}
			if phi, isPhi := ret.Results[1].(*ssa.Phi); isPhi && phi.Block() == blk {
				for i, e := range phi.Edges {
					check(e, edgeGuardStrings(b, blk.Preds[i], blk))
				}
			} else {
				check(ret.Results[1], guardStrings(b, blk))
			}
		}
		c.Check(bad == "" && nTrue > 0, "ALRT", fn, "metadata is built only for an alert with the Mercury alert extension", p.pos(bm.Pos()), fmt.Sprintf("all %d answers other than `false` are under proto.HasExtension(alert, E_MercuryAlert)", nTrue), "metadata can be built for an alert that carries no NYCT data (GetExtension answers a typed nil for an absent extension; only HasExtension tells): "+bad)
	}
	// the informed entities of an elevator group are made here and only here: what is stored in InformedEntity on the
	// elevator path is an empty list or the list itself extended by one fresh selector that has nothing but a stop id
	for _, fs := range collectFieldStores(c.regionOf(ue), "proto.Alert") {
		if fs.field != "InformedEntity" {
			continue
		}
		ok := false
		why := ""
		switch {
		case isAppendOf(fs.store.Val, fs.store.Addr):
			el := appendedOne(fs.store.Val)
			al, isAl := el.(*ssa.Alloc)
			if isAl && typeName(deref(al.Type())) == "proto.EntitySelector" {
				only := true
				for _, r := range *al.Referrers() {
					if fa, isFA := r.(*ssa.FieldAddr); isFA {
						if n := fieldName(fa.X.Type(), fa.Field); n != "StopId" && n != "state" && n != "sizeCache" && n != "unknownFields" {
							only = false
						}
					}
				}
				ok = only
				if !only {
					why = "the appended selector carries more than a stop id"
				}
			} else {
				why = "the appended selector is not a fresh one (" + clip(b.bind(el), 60) + ")"
			}
		default:
			// an empty list: a literal / make of length 0 / nil
			switch x := fs.store.Val.(type) {
			case *ssa.Slice:
				if a := isLocalArrayAlloc(x.X); a != nil {
					if at, isArr := deref(a.Type()).Underlying().(*types.Array); isArr && at.Len() == 0 {
						ok = true
					}
				}
			case *ssa.MakeSlice:
				if k, isC := constInt(x.Len); isC && k == 0 {
					ok = true
				}
			case *ssa.Const:
				ok = x.Value == nil
			}
			if !ok {
				why = "the list is set to " + clip(b.bind(fs.store.Val), 80) + ", which is neither empty nor an extension of itself"
			}
		}
		c.Check(ok, "ALRT", shortName(fs.fn), "a group informs exactly the stops derived from its members' ids", p.ipos(fs.store), "InformedEntity is emptied or extended by one fresh stop-id selector", "the informed entities of an elevator alert are not rebuilt from the ids: "+why+" (selectors from the feed survive with their routes, priorities and extensions)")
	}
	// Y3: elevator alerts
	efn := shortName(ue)
	for _, fs := range collectFieldStores([]*ssa.Function{ue}, "proto.Alert") {
		switch fs.field {
		case "Cause":
			c.Check(b.bind(fs.store.Val) == "&("+c.constOf("proto", "Alert_MAINTENANCE")+")", "ALRT", efn, "elevator alerts: cause maintenance", p.ipos(fs.store), "MAINTENANCE", "elevator alert cause is "+b.bind(fs.store.Val))
		case "Effect":
			c.Check(b.bind(fs.store.Val) == "&("+c.constOf("proto", "Alert_ACCESSIBILITY_ISSUE")+")", "ALRT", efn, "elevator alerts: effect accessibility issue", p.ipos(fs.store), "ACCESSIBILITY_ISSUE", "elevator alert effect is "+b.bind(fs.store.Val))
		}
	}
	// id formats by policy: the value stored through ID
	for _, blk := range ue.Blocks {
		for _, in := range blk.Instrs {
			st, ok := in.(*ssa.Store)
			if !ok || st.Addr != ssa.Value(ue.Params[1]) {
				continue
			}
			got := map[string]string{}
			var src ssa.Value = st.Val
			if phi := firstPhi(st.Val); phi != nil {
				src = phi
			} else if cl := firstCall(st.Val); cl != nil {
				src = cl
			}
			nb := newBinder(c) // the expected forms are written without helper bodies
			nb.catForm = true  // and without regard to how the string is put together (Sprintf or +)
			for _, alt := range storeAlternatives(nb, src) {
				gs, val := alt.guards, alt.val
				switch {
				case hasGuard(gs, "+", "ElevatorAlertsDeduplicationPolicy", `== const:"DEDUPLICATE_IN_STATION"`):
					got["station"] = val
				case hasGuard(gs, "+", "ElevatorAlertsDeduplicationPolicy", `== const:"DEDUPLICATE_IN_COMPLEX"`):
					got["complex"] = val
				default:
					got["default"] = val
				}
			}
			m := "regexp.Regexp.FindStringSubmatch(global:<*regexp.Regexp>,deref(param:<*string>))"
			wantStation := `cat[` + m + `[const:1], const:"#EL", ` + m + `[const:3]]`
			wantComplex := `cat[const:"elevator:EL", ` + m + `[const:3]]`
			wantDefault := `cat[` + m + `[const:1], ` + m + `[const:2], const:"#EL", ` + m + `[const:3]]`
			okIDs := got["station"] == wantStation && got["complex"] == wantComplex && got["default"] == wantDefault
			c.Check(okIDs, "ALRT", efn, "group id by deduplication policy", p.ipos(st), "station: <station>#EL<elevator>; complex: elevator:EL<elevator>; none: <platform>#EL<elevator>", fmt.Sprintf("group ids are station=%q complex=%q default=%q", clip(got["station"], 90), clip(got["complex"], 90), clip(got["default"], 90)))
		}
	}
	// informed stop id: station id when configured, else platform id
	for _, fs := range collectFieldStores([]*ssa.Function{ue}, "proto.EntitySelector") {
		if fs.field != "StopId" {
			continue
		}
		got := map[string]string{}
		cb := newBinder(c)
		cb.showBodies = true
		cb.catForm = true
		for _, alt := range storeAlternatives(cb, fs.store.Val) {
			if hasGuard(alt.guards, "+", "ElevatorAlertsInformUsingStationIDs") {
				got["station"] = alt.val
			} else {
				got["platform"] = alt.val
			}
		}
		m := "regexp.Regexp.FindStringSubmatch(global:<*regexp.Regexp>,deref(param:<*string>))"
		c.Check(got["station"] == m+"[const:1]" && got["platform"] == "cat["+m+"[const:1], "+m+"[const:2]]", "ALRT", efn, "informed stop = station id when configured, else platform id", p.ipos(fs.store), "station = group 1; platform = group 1 + group 2", fmt.Sprintf("informed ids: %v", got))
	}
	// Y4: duplicate test over all informed entities of the group, append only when absent. The test is a flag set in a
	// scan of the group's informed entities, or a predicate helper that performs that scan
	{
		appendGuarded, okScan := false, false
		// fullScanTrue: inside fn, `true` (as a phi edge or a return) arises only within a loop that visits every element
		// of X.InformedEntity and under the guard StopId == <stop>
		scanLoops := func(fn *ssa.Function) []*Loop {
			var out []*Loop
			for _, l := range naturalLoops(fn) {
				for blk := range l.Blocks {
					for _, in := range blk.Instrs {
						if ia, ok := in.(*ssa.IndexAddr); ok {
							if r, _ := isRangeIndexOver(ia.Index, ia.X); r && strings.HasSuffix(canon(ia.X), ".InformedEntity)") {
								out = append(out, l)
							}
						}
					}
				}
			}
			return out
		}
		for _, fs := range collectFieldStores(c.regionOf(ue), "proto.Alert") {
			if fs.field != "InformedEntity" || !isAppendOf(fs.store.Val, fs.store.Addr) {
				continue
			}
			for _, ce := range dominatingConds(fs.store.Block()) {
				if ce.Val {
					continue
				}
				switch x := ce.Cond.(type) {
				case *ssa.Phi:
					appendGuarded = true
					for _, l := range scanLoops(fs.fn) {
						for i, ed := range x.Edges {
							if bv, isC := constBool(ed); isC && bv && l.Header.Dominates(x.Block().Preds[i]) {
								if hasGuard(guardStrings(b, x.Block().Preds[i]), "+", "proto:EntitySelector.StopId", "==") {
									okScan = true
								}
							}
						}
					}
				case *ssa.Call:
					h := x.Call.StaticCallee()
					if h == nil || x.Call.IsInvoke() || !p.isModuleFn(h) || len(h.Blocks) == 0 {
						continue
					}
					appendGuarded = true
					loops := scanLoops(h)
					// or the helper is handed the list itself: loops that visit every element of a slice parameter which
					// this call binds to the very list that is appended to
					listParam := false
					for _, l := range naturalLoops(h) {
						for blk := range l.Blocks {
							for _, in := range blk.Instrs {
								ia, ok := in.(*ssa.IndexAddr)
								if !ok {
									continue
								}
								pa, isParam := ia.X.(*ssa.Parameter)
								if r, _ := isRangeIndexOver(ia.Index, ia.X); !r || !isParam {
									continue
								}
								if j := paramIndex(pa); j >= 0 && j < len(x.Call.Args) {
									if ld, isLd := x.Call.Args[j].(*ssa.UnOp); isLd && ld.Op == token.MUL && canon(ld.X) == canon(fs.store.Addr) {
										loops = append(loops, l)
										listParam = true
									}
								}
							}
						}
					}
					okH, nTrue := len(loops) > 0, 0
					for _, blk := range h.Blocks {
						ret, isRet := blk.Instrs[len(blk.Instrs)-1].(*ssa.Return)
						if !isRet || len(ret.Results) != 1 {
							continue
						}
						bv, isC := constBool(ret.Results[0])
						if !isC {
							okH = false // a computed answer: not the scan the rule knows
							continue
						}
						if !bv {
							continue
						}
						nTrue++
						in := false
						for _, l := range loops {
							if l.Blocks[blk] || l.Header.Dominates(blk) {
								in = true
							}
						}
						if !in || !hasGuard(guardStrings(b, blk), "+", "proto:EntitySelector.StopId", "==") {
							okH = false
						}
					}
					// the scanned alert is the one appended to
					scanned := listParam
					for _, a := range x.Call.Args {
						if strings.HasPrefix(canon(fs.store.Addr), canon(a)+".") {
							scanned = true
						}
					}
					if okH && nTrue > 0 && scanned {
						okScan = true
					}
				}
			}
		}
		// what the scan compares the stored stop ids with is the very stop id that is about to be appended
		{
			var idCell ssa.Value // the variable whose address becomes the appended selector's StopId
			for _, fs := range collectFieldStores(c.regionOf(ue), "proto.EntitySelector") {
				if fs.field == "StopId" {
					idCell = fs.store.Val
				}
			}
			isTheID := func(v ssa.Value, d int) bool { return false }
			var rec func(v ssa.Value, d int) bool
			rec = func(v ssa.Value, d int) bool {
				if d > 3 || idCell == nil {
					return false
				}
				if ld, ok := v.(*ssa.UnOp); ok && ld.Op == token.MUL && ld.X == idCell {
					return true
				}
				if prm, ok := v.(*ssa.Parameter); ok {
					idx := paramIndex(prm)
					callers := p.Callers(prm.Parent())
					if idx < 0 || len(callers) == 0 {
						return false
					}
					for _, e := range callers {
						if e.Site == nil || idx >= len(e.Site.Common().Args) || !rec(e.Site.Common().Args[idx], d+1) {
							return false
						}
					}
					return true
				}
				return false
			}
			isTheID = rec
			okCmp, nCmp := true, 0
			for _, g := range c.regionOf(ue) {
				for _, blk := range g.Blocks {
					for _, in := range blk.Instrs {
						bo, ok := in.(*ssa.BinOp)
						if !ok || (bo.Op != token.EQL && bo.Op != token.NEQ) {
							continue
						}
						l, r := b.bind(bo.X), b.bind(bo.Y)
						var other ssa.Value
						switch {
						case strings.Contains(l, "proto:EntitySelector.StopId") && !isNilConst(bo.Y):
							other = bo.Y
						case strings.Contains(r, "proto:EntitySelector.StopId") && !isNilConst(bo.X):
							other = bo.X
						default:
							continue
						}
						if bt, isB := other.Type().Underlying().(*types.Basic); !isB || bt.Info()&types.IsString == 0 {
							continue
						}
						nCmp++
						if !isTheID(other, 0) {
							okCmp = false
						}
					}
				}
			}
			if idCell != nil && nCmp > 0 {
				c.Check(okCmp, "ALRT", efn, "the duplicate test compares with the stop id that is appended", p.pos(ue.Pos()), fmt.Sprintf("all %d comparisons with stored stop ids use the variable whose address becomes the new selector's StopId", nCmp), "the scan for an existing entry compares the stored stop ids with another value than the one that is appended: platforms of a station are taken for duplicates of each other (or real duplicates are appended again)")
			}
		}
		c.Check(appendGuarded && okScan, "ALRT", efn, "informed stops of a group are distinct whatever the member order", p.pos(ue.Pos()), "the new stop is appended only if a scan of all the group's informed entities found no equal stop id", "the duplicate test does not scan every informed entity of the group (e.g. only the last one): members of one stop separated by another stop's member are listed twice")
	}
	// elevator alerts are recognised by the id regexp; everything else is passed to the generic path unchanged
	okRe := false
	if sp := p.SSAPkg[pkgPathOf("nyctalerts")]; sp != nil {
		for _, mem := range sp.Members {
			g, ok := mem.(*ssa.Global)
			if !ok || g.Object() == nil || g.Object().Exported() || shortType(deref(g.Type())) != "*regexp.Regexp" {
				continue
			}
			if pat, ok := c.globalRegexpPattern(g); ok {
				if rx, err := syntax.Parse(pat, syntax.Perl); err == nil {
					okRe = rx.MaxCap() == 3 && strings.Contains(pat, "#EL")
					// the same language as the documented pattern (oracle): three characters of station, optional N/S,
					// the marker, the elevator
					if want, err2 := syntax.Parse(elevatorIDPattern, syntax.Perl); err2 == nil && rx.Simplify().String() != want.Simplify().String() {
						okRe = false
					}
				}
			}
		}
	}
	c.Check(okRe, "ALRT", "nyctalerts.elevatorAlertIDRegex", "elevator id = station + optional N/S + #EL + elevator", "-", "three groups around the #EL marker", "the elevator id pattern changed")
	n := 0
	okPlain := true
	for _, blk := range ue.Blocks {
		gs := guardStrings(b, blk)
		for _, in := range blk.Instrs {
			st, ok := in.(*ssa.Store)
			if !ok {
				continue
			}
			if _, isAlloc := addrRoot(st.Addr).(*ssa.Alloc); isAlloc {
				continue
			}
			n++
			if !(hasGuard(gs, "-", "FindStringSubmatch(global:<*regexp.Regexp>", "== const:nil") || hasGuard(gs, "+", "FindStringSubmatch(global:<*regexp.Regexp>", "!= const:nil")) {
				okPlain = false
			}
		}
	}
	c.Check(okPlain && n > 0, "ALRT", efn, "alerts without an elevator id are not touched by the elevator path", p.pos(ue.Pos()), fmt.Sprintf("all %d writes are dominated by a successful match of the elevator id", n), "an alert whose id is not an elevator id is modified by the elevator logic")
}

type storeAlt struct {
	guards []string
	val    string
}

// storeAlternatives: v is (the address of) a local cell, or a phi: the values it can hold with the branch conditions
// under which each is assigned.
func storeAlternatives(b *binder, v ssa.Value) []storeAlt {
	var out []storeAlt
	switch x := v.(type) {
	case *ssa.Alloc:
		for _, r := range *x.Referrers() {
			if st, ok := r.(*ssa.Store); ok && st.Addr == ssa.Value(x) {
				inner := storeAlternatives(b, st.Val)
				gs := guardStrings(b, st.Block())
				_, isCallish := st.Val.(*ssa.Extract)
				if call, isCall := st.Val.(*ssa.Call); isCall {
					if cal := call.Call.StaticCallee(); cal != nil && !isProtoPkg(fnPkgPath(cal)) {
						isCallish = true // a helper of the library that picks the value (generated getters are leaves)
					}
				}
				switch st.Val.(type) {
				case *ssa.BinOp, *ssa.Convert, *ssa.ChangeType, *ssa.MakeInterface:
					isCallish = true // an expression over a picked value (inner is empty when there is none)
				}
				if isCallish && len(inner) > 0 {
					for _, in := range inner {
						out = append(out, storeAlt{append(append([]string{}, gs...), in.guards...), in.val})
					}
					continue
				}
				out = append(out, storeAlt{gs, b.bind(st.Val)})
			}
		}
	case *ssa.Extract:
		if call, ok := x.Tuple.(*ssa.Call); ok {
			return callAlternatives(b, call, x.Index)
		}
	case *ssa.Call:
		return callAlternatives(b, x, 0)
	case *ssa.BinOp, *ssa.Convert, *ssa.ChangeType, *ssa.MakeInterface:
		// an expression over one value that a helper of the library picks ((value, ok) helpers included): the
		// expression once per alternative of that value. Alternatives that the flag tested on the way here excludes
		// (`v, ok := pick(..); if !ok { continue }`) are left out.
		leaf := pickLeaf(b, v, 0)
		if leaf == nil {
			return nil
		}
		var at *ssa.BasicBlock
		if in, ok := v.(ssa.Instruction); ok {
			at = in.Block()
		}
		var alts []storeAlt
		if ex, ok := leaf.(*ssa.Extract); ok {
			alts = callAlternativesAt(b, ex.Tuple.(*ssa.Call), ex.Index, at)
		} else {
			alts = callAlternativesAt(b, leaf.(*ssa.Call), 0, at)
		}
		for _, alt := range alts {
			nb := &binder{c: b.c, memo: map[ssa.Value]string{leaf: alt.val}, busy: map[ssa.Value]bool{}, carriers: b.carriers, fieldSrc: b.fieldSrc, classOf: b.classOf,
				subst: b.subst, inlineD: b.inlineD, catForm: b.catForm, catRaw: b.catRaw, showBodies: b.showBodies}
			out = append(out, storeAlt{alt.guards, nb.bind(v)})
		}
	case *ssa.Phi:
		for i, ed := range x.Edges {
			pred := x.Block().Preds[i]
			gs := guardStrings(b, pred)
			if iff, ok := pred.Instrs[len(pred.Instrs)-1].(*ssa.If); ok && pred.Succs[0] != pred.Succs[1] {
				sign := "-"
				if pred.Succs[0] == x.Block() {
					sign = "+"
				}
				cnd, val := normalizeCond(iff.Cond, sign == "+")
				if val {
					sign = "+"
				} else {
					sign = "-"
				}
				gs = append(gs, sign+b.bind(cnd))
			}
			out = append(out, storeAlt{gs, b.bind(ed)})
		}
	}
	return out
}

// pickLeaf: the one operand (through arithmetic and conversions) of v that is the result of a module helper with
// several returns; nil when there is none or more than one.
func pickLeaf(b *binder, v ssa.Value, d int) ssa.Value {
	if d > 4 {
		return nil
	}
	isPick := func(call *ssa.Call) bool {
		cal := call.Call.StaticCallee()
		if cal == nil || call.Call.IsInvoke() || !b.c.P.isModuleFn(cal) || isProtoPkg(fnPkgPath(cal)) || len(cal.Blocks) < 2 {
			return false
		}
		n := 0
		for _, blk := range cal.Blocks {
			if _, ok := blk.Instrs[len(blk.Instrs)-1].(*ssa.Return); ok {
				n++
			}
		}
		return n > 1
	}
	var ops []ssa.Value
	switch x := v.(type) {
	case *ssa.Extract:
		if call, ok := x.Tuple.(*ssa.Call); ok && isPick(call) {
			return x
		}
		return nil
	case *ssa.Call:
		if isPick(x) {
			return x
		}
		return nil
	case *ssa.BinOp:
		ops = []ssa.Value{x.X, x.Y}
	case *ssa.Convert:
		ops = []ssa.Value{x.X}
	case *ssa.ChangeType:
		ops = []ssa.Value{x.X}
	case *ssa.MakeInterface:
		ops = []ssa.Value{x.X}
	default:
		return nil
	}
	var found ssa.Value
	for _, o := range ops {
		if l := pickLeaf(b, o, d+1); l != nil {
			if found != nil && found != l {
				return nil
			}
			found = l
		}
	}
	return found
}

// callAlternativesAt: callAlternatives, without the returns that a test of one of the call's boolean results on the
// way to block `at` rules out (the helper returns the constant of the other polarity there).
func callAlternativesAt(b *binder, x *ssa.Call, idx int, at *ssa.BasicBlock) []storeAlt {
	need := map[int]bool{}
	if at != nil {
		for _, ce := range dominatingConds(at) {
			cnd, val := ce.Cond, ce.Val
			if un, ok := cnd.(*ssa.UnOp); ok && un.Op == token.NOT {
				cnd, val = un.X, !val
			}
			if ex, ok := cnd.(*ssa.Extract); ok && ex.Tuple == ssa.Value(x) && !ce.Composite {
				need[ex.Index] = val
			}
		}
	}
	callAltSkip = func(ret *ssa.Return) bool {
		for j, want := range need {
			if j < len(ret.Results) {
				if k, isC := ret.Results[j].(*ssa.Const); isC {
					if bv, isB := constBool(k); isB && bv != want {
						return true
					}
				}
			}
		}
		return false
	}
	defer func() { callAltSkip = nil }()
	return callAlternatives(b, x, idx)
}

// callAltSkip: set by callAlternativesAt for the duration of one expansion.
var callAltSkip func(ret *ssa.Return) bool

// callAlternatives: a module helper that picks the value: each of its returns (result idx) with the conditions
// under which it is taken, in terms of the call's arguments.
func callAlternatives(b *binder, x *ssa.Call, idx int) []storeAlt {
	var out []storeAlt
	cal := x.Call.StaticCallee()
	if cal == nil || x.Call.IsInvoke() || !b.c.P.isModuleFn(cal) || len(cal.Blocks) == 0 || len(cal.Params) != len(x.Call.Args) || b.inlineD >= 2 {
		return nil
	}
	var args []string
	for _, a := range x.Call.Args {
		args = append(args, b.bind(a))
	}
	sub := b.withArgs(cal, args)
	sub.showBodies = b.showBodies
	for _, blk := range cal.Blocks {
		ret, ok := blk.Instrs[len(blk.Instrs)-1].(*ssa.Return)
		if !ok || idx >= len(ret.Results) {
			continue
		}
		if callAltSkip != nil && x.Parent() != cal && callAltSkip(ret) {
			continue
		}
		// guards of the return block; when the block is entered straight from a test (a switch arm), that test too
		gs := guardStrings(sub, blk)
		if len(blk.Preds) == 1 {
			pred := blk.Preds[0]
			if iff, isIf := pred.Instrs[len(pred.Instrs)-1].(*ssa.If); isIf && pred.Succs[0] != pred.Succs[1] {
				cnd, val := normalizeCond(iff.Cond, pred.Succs[0] == blk)
				sign := "-"
				if val {
					sign = "+"
				}
				gs = append(gs, sign+sub.bind(cnd))
			}
		}
		inner := storeAlternatives(sub, ret.Results[idx])
		if len(inner) == 0 {
			out = append(out, storeAlt{gs, sub.bind(ret.Results[idx])})
			continue
		}
		for _, in := range inner {
			out = append(out, storeAlt{append(append([]string{}, gs...), in.guards...), in.val})
		}
	}
	return out
}

// firstCall: the module helper call whose result v is (through local cells and interface conversion).
func firstCall(v ssa.Value) *ssa.Call {
	for i := 0; i < 8 && v != nil; i++ {
		switch x := v.(type) {
		case *ssa.Call:
			if x.Call.StaticCallee() != nil && !x.Call.IsInvoke() {
				return x
			}
			return nil
		case *ssa.Alloc:
			var sv ssa.Value
			for _, s := range cellStores(x) {
				sv = s
			}
			v = sv
		case *ssa.UnOp:
			v = x.X
		case *ssa.MakeInterface:
			v = x.X
		default:
			return nil
		}
	}
	return nil
}

func firstPhi(v ssa.Value) *ssa.Phi {
	for i := 0; i < 8 && v != nil; i++ {
		switch x := v.(type) {
		case *ssa.Phi:
			return x
		case *ssa.Alloc:
			var sv ssa.Value
			for _, s := range cellStores(x) {
				sv = s
			}
			v = sv
		case *ssa.UnOp:
			v = x.X
		case *ssa.MakeInterface:
			v = x.X
		default:
			return nil
		}
	}
	return nil
}

// membershipSet: cond tests membership of a string in a fixed set, written as a lookup in a map literal (local or
// package level) or as a call of a predicate helper whose decision table answers true exactly for listed constants.
// Returns the set (sorted) and the tested subject.
func (c *Ctx) membershipSet(cond ssa.Value) ([]string, ssa.Value, bool) {
	switch x := cond.(type) {
	case *ssa.Extract:
		if lk, ok := x.Tuple.(*ssa.Lookup); ok {
			return c.membershipSet(lk)
		}
		if call, ok := x.Tuple.(*ssa.Call); ok {
			return c.membershipOfCall(call, x.Index)
		}
	case *ssa.Lookup:
		if _, isMap := x.X.Type().Underlying().(*types.Map); !isMap {
			return nil, nil, false
		}
		var keys []string
		n := 0
		// a package-level table: the map its initialiser builds
		target := x.X
		if ld, ok := x.X.(*ssa.UnOp); ok {
			if g, ok := ld.X.(*ssa.Global); ok {
				target = nil
				for _, fn := range c.P.ModFns {
					for _, b := range fn.Blocks {
						for _, in := range b.Instrs {
							if st, ok := in.(*ssa.Store); ok && st.Addr == ssa.Value(g) {
								if target != nil {
									return nil, nil, false // assigned more than once
								}
								target = st.Val
							}
						}
					}
				}
				if target == nil {
					return nil, nil, false
				}
			}
		}
		for _, fn := range c.P.ModFns {
			for _, b := range fn.Blocks {
				for _, in := range b.Instrs {
					if mu, ok := in.(*ssa.MapUpdate); ok && (mu.Map == target || (types.Identical(mu.Map.Type(), target.Type()) && c.P.valueOrigins(mu.Map).intersects(c.P.valueOrigins(target)))) {
						n++
						kc, isC := mu.Key.(*ssa.Const)
						if !isC || kc.Value == nil {
							return nil, nil, false
						}
						if bv, isB := constBool(mu.Value); isB && !bv {
							continue // an explicit false entry is not a member
						}
						keys = append(keys, constKey(kc))
					}
				}
			}
		}
		if n == 0 {
			return nil, nil, false
		}
		sort.Strings(keys)
		return keys, x.Index, true
	case *ssa.Call:
		return c.membershipOfCall(x, 0)
	}
	return nil, nil, false
}

// setsVehicleDescriptor: a call of the extension's own helper that installs a vehicle descriptor on the entity (a
// nycttrips function or interface method taking a *proto.VehicleDescriptor).
func setsVehicleDescriptor(call *ssa.Call) bool {
	var sig *types.Signature
	if call.Call.IsInvoke() {
		sig, _ = call.Call.Method.Type().(*types.Signature)
		if call.Call.Method.Pkg() == nil || !strings.HasSuffix(call.Call.Method.Pkg().Path(), "/nycttrips") {
			return false
		}
	} else if cal := call.Call.StaticCallee(); cal != nil && strings.HasSuffix(fnPkgPath(cal), "/nycttrips") {
		sig = cal.Signature
	}
	if sig == nil {
		return false
	}
	for i := 0; i < sig.Params().Len(); i++ {
		if shortType(sig.Params().At(i).Type()) == "*proto.VehicleDescriptor" {
			return true
		}
	}
	return false
}

// runAlertStateConfinement: what the extension does to one alert is a function of that alert and the options; the one
// piece of state carried from alert to alert is the table of group alerts (map[string]*proto.Alert) that elevator
// grouping needs. Any other container held by the extension object that the alert path both writes and reads makes
// the output for one alert depend on the alerts processed before it (a cache keyed by something that does not
// determine the content, a set shared between groups).
func runAlertStateConfinement(c *Ctx, ua *ssa.Function) {
	p := c.P
	if len(ua.Params) == 0 {
		return
	}
	recvT := deref(ua.Params[0].Type())
	st := structOf(recvT)
	if st == nil {
		return
	}
	type use struct {
		writes, reads []string
	}
	uses := map[int]*use{}
	mutable := func(t types.Type) bool {
		switch t.Underlying().(type) {
		case *types.Map, *types.Pointer, *types.Slice, *types.Chan:
			return true
		}
		return false
	}
	isGroupTable := func(t types.Type) bool {
		m, ok := t.Underlying().(*types.Map)
		return ok && shortType(m.Elem()) == "*proto.Alert"
	}
	var classify func(v ssa.Value, u *use, d int)
	classify = func(v ssa.Value, u *use, d int) {
		if v == nil || v.Referrers() == nil || d > 4 {
			return
		}
		for _, r := range *v.Referrers() {
			switch x := r.(type) {
			case *ssa.MapUpdate:
				if x.Map == v {
					u.writes = append(u.writes, p.ipos(x))
				}
			case *ssa.Lookup:
				if x.X == v {
					u.reads = append(u.reads, p.ipos(x))
				}
			case *ssa.Range:
				u.reads = append(u.reads, p.ipos(x))
			case *ssa.Store:
				if x.Addr == v {
					u.writes = append(u.writes, p.ipos(x))
				}
			case *ssa.UnOp:
				if x.Op == token.MUL && x.X == v {
					u.reads = append(u.reads, p.ipos(x))
					classify(x, u, d+1)
				}
			case *ssa.FieldAddr:
				if x.X == v {
					classify(x, u, d+1)
				}
			case *ssa.IndexAddr:
				if x.X == v {
					classify(x, u, d+1)
				}
			case *ssa.Phi:
				classify(x, u, d+1)
			case *ssa.Call:
				// handed to a helper or a method: follow into module code, treat builtins delete/len/append
				if isBuiltin(x, "delete") {
					u.writes = append(u.writes, p.ipos(x))
					continue
				}
				if isBuiltin(x, "len") {
					u.reads = append(u.reads, p.ipos(x))
					continue
				}
				if cal := x.Call.StaticCallee(); cal != nil && p.isModuleFn(cal) && len(cal.Blocks) > 0 {
					for i, a := range x.Call.Args {
						if a == v && i < len(cal.Params) {
							classify(cal.Params[i], u, d+1)
						}
					}
				}
			}
		}
	}
	for _, fn := range c.regionOf(ua) {
		for _, blk := range fn.Blocks {
			for _, in := range blk.Instrs {
				var fld int
				var val ssa.Value
				switch x := in.(type) {
				case *ssa.Field:
					if !types.Identical(x.X.Type(), recvT) {
						continue
					}
					fld, val = x.Field, x
				case *ssa.FieldAddr:
					if !types.Identical(deref(x.X.Type()), recvT) {
						continue
					}
					fld = x.Field
					// the loads of the field
					if x.Referrers() != nil {
						for _, r := range *x.Referrers() {
							if ld, ok := r.(*ssa.UnOp); ok && ld.Op == token.MUL {
								ft := st.Field(fld).Type()
								if mutable(ft) && !isGroupTable(ft) {
									if uses[fld] == nil {
										uses[fld] = &use{}
									}
									classify(ld, uses[fld], 0)
								}
							}
						}
					}
					continue
				default:
					continue
				}
				ft := st.Field(fld).Type()
				if !mutable(ft) || isGroupTable(ft) {
					continue
				}
				if uses[fld] == nil {
					uses[fld] = &use{}
				}
				classify(val, uses[fld], 0)
			}
		}
	}
	n := 0
	for i := 0; i < st.NumFields(); i++ {
		ft := st.Field(i).Type()
		if !mutable(ft) || isGroupTable(ft) {
			continue
		}
		n++
		u := uses[i]
		if u == nil {
			u = &use{}
		}
		c.Check(len(u.writes) == 0 || len(u.reads) == 0, "ALRT", shortName(ua), "extension state "+st.Field(i).Name()+" does not carry data between alerts", p.pos(ua.Pos()), fmt.Sprintf("%d writes, %d reads on the alert path", len(u.writes), len(u.reads)), fmt.Sprintf("the extension keeps %s (%s) across alerts: written at %s and read at %s on the alert path. What is produced for one alert then depends on the alerts processed before it (only the table of group alerts may do that)", st.Field(i).Name(), shortType(ft), strings.Join(u.writes, ", "), strings.Join(u.reads, ", ")))
	}
	if n == 0 {
		c.Proved("ALRT", shortName(ua), "extension state is the group table only", p.pos(ua.Pos()), "the extension object holds no map, pointer or slice besides the table of group alerts")
	}
}

// descriptorKeptIntact: in the function that puts a derived *proto.VehicleDescriptor on an entity, the descriptor
// parameter (and what helpers make of it) is stored into the entity's Vehicle field and is never written to or handed
// to a call that may overwrite its fields (proto.Merge into it, Reset, Unmarshal ...). Returns a complaint and the
// number of stores seen.
func descriptorKeptIntact(c *Ctx, setter *ssa.Function) (string, int) {
	p := c.P
	isDesc := func(t types.Type) bool { return shortType(t) == "*proto.VehicleDescriptor" }
	mutators := map[string]bool{"Merge": true, "Reset": true, "Unmarshal": true, "UnmarshalMerge": true, "SetExtension": true, "ClearExtension": true, "UnmarshalText": true, "UnmarshalJSON": true}
	bad := ""
	nst := 0
	storeBlocks := map[*ssa.BasicBlock]bool{}
	seen := map[ssa.Value]bool{}
	var literalOf *ssa.Alloc
	var follow func(v ssa.Value, d int)
	// returnsAlias: the module helper returns, on some path, the given parameter
	follow = func(v ssa.Value, d int) {
		if v == nil || seen[v] || d > 4 || v.Referrers() == nil {
			return
		}
		seen[v] = true
		for _, r := range *v.Referrers() {
			switch x := r.(type) {
			case *ssa.Store:
				if x.Val == v {
					if fa, ok := x.Addr.(*ssa.FieldAddr); ok && isDesc(deref(fa.Type())) && fieldName(fa.X.Type(), fa.Field) == "Vehicle" {
						nst++
						if x.Block().Parent() == setter {
							storeBlocks[x.Block()] = true
						}
					}
				}
			case *ssa.FieldAddr:
				if x.X == v && x.Referrers() != nil {
					for _, rr := range *x.Referrers() {
						if st, ok := rr.(*ssa.Store); ok && st.Addr == ssa.Value(x) {
							if literalOf != nil && v == ssa.Value(literalOf) && st.Block() == literalOf.Block() {
								continue // the fields of the literal that builds it
							}
							bad = "its field " + fieldName(x.X.Type(), x.Field) + " is overwritten at " + p.ipos(st)
						}
					}
				}
			case *ssa.Phi:
				follow(x, d+1)
			case *ssa.ChangeType:
				follow(x, d+1)
			case *ssa.MakeInterface:
				follow(x, d+1)
			case *ssa.Call:
				cal := x.Call.StaticCallee()
				argIdx := -1
				for i, a := range x.Call.Args {
					if a == v {
						argIdx = i
					}
				}
				if argIdx < 0 {
					continue
				}
				if cal != nil && p.isModuleFn(cal) && len(cal.Blocks) > 0 && !strings.HasSuffix(fnPkgPath(cal), "/proto") {
					if argIdx < len(cal.Params) {
						before := nst
						follow(cal.Params[argIdx], d+1)
						if nst > before && x.Block().Parent() == setter && len(dominatingConds(cal.Blocks[0])) == 0 {
							storeBlocks[x.Block()] = true // approximated: the helper stores it somewhere
						}
						// what the helper returns may be the descriptor again
						for _, blk := range cal.Blocks {
							if ret, ok := blk.Instrs[len(blk.Instrs)-1].(*ssa.Return); ok {
								for _, rv := range ret.Results {
									if isDesc(rv.Type()) && reachesValue(rv, cal.Params[argIdx], 0) {
										follow(x, d+1)
									} else if isDesc(rv.Type()) && isDesc(x.Type()) {
										// the helper can also hand back another descriptor (the one the entity already had)
										bad = shortName(cal) + " does not always hand back the derived descriptor (" + p.ipos(ret) + "): the entity can keep a descriptor of its own"
									}
								}
							}
						}
					}
					continue
				}
				name := calleeName(x)
				short := name[strings.LastIndex(name, ".")+1:]
				if mutators[short] && argIdx == 0 {
					bad = name + " at " + p.ipos(x) + " writes into it (fields that are set in the other message, the id among them, replace its own)"
				}
			}
		}
	}
	for _, prm := range setter.Params {
		if isDesc(prm.Type()) {
			follow(prm, 0)
		}
	}
	// ... or the setter builds the descriptor itself, from the identifier it is handed
	for _, al := range descriptorLiterals(setter) {
		literalOf = al
		follow(al, 0)
		literalOf = nil
	}
	// every kind of entity gets it, on every path: the two entities of one trip (trip update, vehicle position) must
	// name the same vehicle, so neither may keep a descriptor of its own
	if bad == "" && nst > 0 {
		var starts []*ssa.BasicBlock
		var kinds []string
		for _, blk := range setter.Blocks {
			iff, ok := blk.Instrs[len(blk.Instrs)-1].(*ssa.If)
			if !ok {
				continue
			}
			if ex, ok := iff.Cond.(*ssa.Extract); ok && ex.Index == 1 {
				if ta, ok := ex.Tuple.(*ssa.TypeAssert); ok && ta.CommaOk {
					starts = append(starts, blk.Succs[0])
					kinds = append(kinds, shortType(ta.AssertedType))
				}
			}
		}
		if len(starts) == 0 {
			starts, kinds = []*ssa.BasicBlock{setter.Blocks[0]}, []string{"entity"}
		}
		for i, st := range starts {
			seenB := map[*ssa.BasicBlock]bool{}
			work := []*ssa.BasicBlock{st}
			for len(work) > 0 && bad == "" {
				cur := work[len(work)-1]
				work = work[:len(work)-1]
				if seenB[cur] || storeBlocks[cur] {
					continue
				}
				seenB[cur] = true
				if _, isRet := cur.Instrs[len(cur.Instrs)-1].(*ssa.Return); isRet {
					bad = "for a " + kinds[i] + " there is a path to " + p.ipos(cur.Instrs[len(cur.Instrs)-1]) + " on which the descriptor is not put on the entity (the entity keeps a descriptor of its own, so the two entities of one trip name different vehicles)"
				}
				work = append(work, cur.Succs...)
			}
		}
	}
	return bad, nst
}

// descriptorLiterals: the vehicle descriptors a function of the extensions builds itself (&proto.VehicleDescriptor{..}).
func descriptorLiterals(f *ssa.Function) []*ssa.Alloc {
	var out []*ssa.Alloc
	for _, b := range f.Blocks {
		for _, in := range b.Instrs {
			if al, ok := in.(*ssa.Alloc); ok && al.Heap && shortType(al.Type()) == "*proto.VehicleDescriptor" {
				out = append(out, al)
			}
		}
	}
	return out
}

// storesVehicleField: the function itself stores a vehicle descriptor into the Vehicle field of an entity.
func storesVehicleField(f *ssa.Function) bool {
	for _, b := range f.Blocks {
		for _, in := range b.Instrs {
			if st, ok := in.(*ssa.Store); ok {
				if fa, isFA := st.Addr.(*ssa.FieldAddr); isFA && shortType(deref(fa.Type())) == "*proto.VehicleDescriptor" && fieldName(fa.X.Type(), fa.Field) == "Vehicle" {
					return true
				}
			}
		}
	}
	return false
}

// reachesValue: v is w, or a phi / conversion over values one of which is w.
func reachesValue(v, w ssa.Value, d int) bool {
	if v == w {
		return true
	}
	if d > 6 {
		return false
	}
	switch x := v.(type) {
	case *ssa.Phi:
		for _, e := range x.Edges {
			if reachesValue(e, w, d+1) {
				return true
			}
		}
	case *ssa.ChangeType:
		return reachesValue(x.X, w, d+1)
	}
	return false
}

// hasGuardClass: some guard with the sign is a call of a module function of the given signature class.
func hasGuardClass(b *binder, gs []string, sign, class string) bool {
	for _, g := range gs {
		if strings.HasPrefix(g, sign) && b.headClass(g[1:]) == class {
			return true
		}
	}
	return false
}

// membershipOfCall: the call's boolean result idx is true only for a fixed set of string constants: in the callee's
// decision table every row answering true carries exactly one positive equality of one and the same string-valued
// subject with a constant (besides whatever other tests it makes). Returns the set and the subject as the callee
// sees it (a value of the callee; bind it with the call's arguments).
func (c *Ctx) membershipOfCall(x *ssa.Call, idx int) ([]string, ssa.Value, bool) {
	cal := x.Call.StaticCallee()
	if cal == nil || x.Call.IsInvoke() || !c.P.isModuleFn(cal) || len(cal.Blocks) == 0 || idx >= cal.Signature.Results().Len() {
		return nil, nil, false
	}
	if bt, ok := cal.Signature.Results().At(idx).Type().Underlying().(*types.Basic); !ok || bt.Kind() != types.Bool {
		return nil, nil, false
	}
	tb, err := extractTable(cal)
	if err != nil {
		return nil, nil, false
	}
	bySubj := map[string][]string{}
	subjVal := map[string]ssa.Value{}
	nTrue := 0
	rowsWith := map[string]int{}
	for _, r := range tb.rows {
		if idx >= len(r.results) {
			return nil, nil, false
		}
		if r.results[idx] != "const:true" {
			if r.results[idx] != "const:false" {
				return nil, nil, false
			}
			continue
		}
		nTrue++
		seen := map[string]int{}
		for _, a := range r.conds {
			if a.opaque || a.neg || a.konst == "nil" || a.konst == "true" || a.konst == "false" {
				continue
			}
			seen[a.subj]++
			bySubj[a.subj] = append(bySubj[a.subj], a.konst)
			if bo, isBo := a.v.(*ssa.BinOp); isBo {
				if _, isC := bo.Y.(*ssa.Const); isC {
					subjVal[a.subj] = bo.X
				} else {
					subjVal[a.subj] = bo.Y
				}
			}
		}
		for s, n := range seen {
			if n == 1 {
				rowsWith[s]++
			}
		}
	}
	if nTrue == 0 {
		return nil, nil, false
	}
	// the subject tested (once) in every true row; if several qualify, the one with the largest constant set
	best := ""
	for s, n := range rowsWith {
		if n == nTrue && (best == "" || len(dedup(bySubj[s])) > len(dedup(bySubj[best]))) {
			best = s
		}
	}
	if best == "" {
		return nil, nil, false
	}
	keys := append([]string{}, bySubj[best]...)
	sort.Strings(keys)
	keys = dedup(keys)
	sv := subjVal[best]
	if sv == nil {
		return nil, nil, false
	}
	// seen from the caller: a subject that is the callee's parameter is the call's argument
	if prm, isP := sv.(*ssa.Parameter); isP && prm.Parent() == cal {
		if k := paramIndex(prm); k >= 0 && k < len(x.Call.Args) {
			sv = x.Call.Args[k]
		}
	}
	return keys, sv, true
}

// bindSubject: the subject of a membership test as the caller sees it: a value of a helper is bound with the helper's
// parameters standing for the arguments of the call that the condition is a result of.
func bindSubject(b *binder, subj ssa.Value, cond ssa.Value) string {
	var call *ssa.Call
	switch x := cond.(type) {
	case *ssa.Call:
		call = x
	case *ssa.Extract:
		call, _ = x.Tuple.(*ssa.Call)
	}
	if call != nil {
		if cal := call.Call.StaticCallee(); cal != nil && subj.Parent() == cal && len(cal.Params) == len(call.Call.Args) {
			var args []string
			for _, a := range call.Call.Args {
				args = append(args, b.bind(a))
			}
			return b.withArgs(cal, args).bind(subj)
		}
	}
	return b.bind(subj)
}

// swapByAlternatives: the stored id is, in every alternative, <first three characters> + "S" under the test that the
// fourth character is 'N', or + "N" under the test that it is 'S' (a helper returning the opposite platform).
func swapByAlternatives(b *binder, v ssa.Value) bool {
	alts := storeAlternatives(b, v)
	if len(alts) == 0 {
		return false
	}
	pairs := map[byte]byte{}
	for _, alt := range alts {
		if alt.val == `const:""` || alt.val == "const:nil" {
			continue // the "no change" answers of the helper
		}
		var to byte
		switch {
		case strings.HasSuffix(alt.val, `+ const:"S")`), strings.HasSuffix(alt.val, "conv(const:83))"):
			to = 'S'
		case strings.HasSuffix(alt.val, `+ const:"N")`), strings.HasSuffix(alt.val, "conv(const:78))"):
			to = 'N'
		default:
			return false
		}
		var from byte
		for _, g := range alt.guards {
			if strings.HasPrefix(g, "+") && strings.Contains(g, "[const:3]") {
				if strings.Contains(g, "== const:78)") {
					from = 'N'
				} else if strings.Contains(g, "== const:83)") {
					from = 'S'
				}
			}
		}
		if from == 0 {
			return false
		}
		pairs[from] = to
	}
	return len(pairs) == 2 && pairs['N'] == 'S' && pairs['S'] == 'N'
}

// eachReturned calls visit for every value result idx of fn can take, with the block whose guards apply to it (the
// predecessor for a value merged by a phi in the returning block).
func eachReturned(fn *ssa.Function, idx int, visit func(v ssa.Value, at *ssa.BasicBlock, ret *ssa.Return)) {
	for _, blk := range fn.Blocks {
		ret, ok := blk.Instrs[len(blk.Instrs)-1].(*ssa.Return)
		if !ok || idx >= len(ret.Results) {
			continue
		}
		if phi, isPhi := ret.Results[idx].(*ssa.Phi); isPhi && phi.Block() == blk {
			for i, e := range phi.Edges {
				visit(e, blk.Preds[i], ret)
			}
		} else {
			visit(ret.Results[idx], blk, ret)
		}
	}
}

// returnedTuples: the result tuples fn can return. Results merged by phis in the returning block are taken edge by
// edge (all phis of that block together), so that a flag and the value it qualifies stay paired.
func returnedTuples(fn *ssa.Function) [][]ssa.Value {
	var out [][]ssa.Value
	for _, blk := range fn.Blocks {
		ret, ok := blk.Instrs[len(blk.Instrs)-1].(*ssa.Return)
		if !ok {
			continue
		}
		split := false
		for _, r := range ret.Results {
			if phi, isPhi := r.(*ssa.Phi); isPhi && phi.Block() == blk {
				split = true
			}
		}
		if !split {
			out = append(out, append([]ssa.Value{}, ret.Results...))
			continue
		}
		for i := range blk.Preds {
			var tup []ssa.Value
			for _, r := range ret.Results {
				if phi, isPhi := r.(*ssa.Phi); isPhi && phi.Block() == blk {
					tup = append(tup, phi.Edges[i])
				} else {
					tup = append(tup, r)
				}
			}
			out = append(out, tup)
		}
	}
	return out
}

// edgeGuardStrings: what is known on the edge pred -> succ: the guards of pred plus the outcome of pred's own branch.
func edgeGuardStrings(b *binder, pred, succ *ssa.BasicBlock) []string {
	gs := guardStrings(b, pred)
	if iff, ok := pred.Instrs[len(pred.Instrs)-1].(*ssa.If); ok && pred.Succs[0] != pred.Succs[1] {
		cnd, val := normalizeCond(iff.Cond, pred.Succs[0] == succ)
		sign := "-"
		if val {
			sign = "+"
		}
		gs = append(gs, sign+b.bind(cnd))
	}
	return gs
}

// regionGuards: what is known at blk, a block of root or of a helper that root's region calls from exactly one place:
// the guards inside the helper plus those at its call site (and so on up to root).
func regionGuards(c *Ctx, b *binder, root *ssa.Function, blk *ssa.BasicBlock, d int) []string {
	gs := guardStrings(b, blk)
	f := blk.Parent()
	if f == root || d > 3 {
		return gs
	}
	in := map[*ssa.Function]bool{}
	for _, g := range c.regionOf(root) {
		in[g] = true
	}
	var sites []ssa.CallInstruction
	for _, e := range c.P.Callers(f) {
		if in[e.Caller] && e.Site != nil {
			sites = append(sites, e.Site)
		}
	}
	if len(sites) != 1 {
		return gs
	}
	return append(gs, regionGuards(c, b, root, sites[0].Block(), d+1)...)
}

func regionInstrs(fns []*ssa.Function) []ssa.Instruction {
	var out []ssa.Instruction
	for _, f := range fns {
		for _, b := range f.Blocks {
			out = append(out, b.Instrs...)
		}
	}
	return out
}

// scaledBeforeDivided: every arithmetic use of a number parsed by strconv.Atoi (through conversions) is a
// multiplication by a constant a whose product is only divided by a constant b, with a/b = 3/5.
func scaledBeforeDivided(ins []ssa.Instruction) (bool, string) {
	n := 0
	for _, in := range ins {
		ex, ok := in.(*ssa.Extract)
		if !ok || ex.Index != 0 {
			continue
		}
		call, ok := ex.Tuple.(*ssa.Call)
		if !ok || calleeName(call) != "strconv.Atoi" {
			continue
		}
		var uses func(v ssa.Value, d int) (bool, string)
		uses = func(v ssa.Value, d int) (bool, string) {
			if d > 4 || v.Referrers() == nil {
				return true, ""
			}
			for _, r := range *v.Referrers() {
				switch x := r.(type) {
				case *ssa.Convert:
					if ok, why := uses(x, d+1); !ok {
						return false, why
					}
				case *ssa.Call:
					// handed to a helper of the library: what the helper does with its parameter
					if h := x.Call.StaticCallee(); h != nil && !x.Call.IsInvoke() && strings.HasPrefix(fnPkgPath(h), modPath) && len(h.Blocks) > 0 {
						for i, a := range x.Call.Args {
							if a == v && i < len(h.Params) {
								if ok, why := uses(h.Params[i], d+1); !ok {
									return false, why
								}
							}
						}
					}
				case *ssa.BinOp:
					n++
					if x.Op != token.MUL {
						return false, "the raw number is used in `" + canon(x) + "` before it is scaled: for `/` or `%` its last digit (hundredths of a minute below a tenth) is lost, and the start time is rounded down to a multiple of 6 seconds"
					}
					a, okA := constInt(x.Y)
					if !okA {
						a, okA = constInt(x.X)
					}
					if !okA {
						return false, "the raw number is multiplied by something that is not a constant"
					}
					for _, r2 := range *x.Referrers() {
						q, isQ := r2.(*ssa.BinOp)
						if !isQ || q.Op != token.QUO || q.X != ssa.Value(x) {
							if _, isDbg := r2.(*ssa.DebugRef); isDbg {
								continue
							}
							return false, "the scaled number is not simply divided by a constant (`" + r2.String() + "`)"
						}
						bk, okB := constInt(q.Y)
						if !okB || a*10 != bk*6 {
							return false, fmt.Sprintf("hundredths of a minute are converted with the factor %d/%d, not 6/10", a, bk)
						}
					}
				case *ssa.DebugRef:
				}
			}
			return true, ""
		}
		if ok, why := uses(ex, 0); !ok {
			return false, why
		}
	}
	if n == 0 {
		return false, "no arithmetic on the parsed origin time was found"
	}
	return true, ""
}

// nyctTripIDPattern: the NYCT trip id format (oracle, transcribed from the MTA's GTFS-realtime documentation:
// <origin time in hundredths of a minute>_<route>..<direction><path identifier, may be empty>).
const nyctTripIDPattern = `^([0-9]{6})_([[:alnum:]]{1,2})..([SN])([[:alnum:]]*)$`

// elevatorIDPattern: ids of elevator alerts (oracle): <3-character station><N|S or nothing>#EL<elevator>.
const elevatorIDPattern = "([[:alnum:]]{3}?)([SN]?)#EL(.*)"

// runSameVehicleForBothEntities (C07): an extension that derives a vehicle descriptor for an entity installs it on
// every kind of entity and on every path, unmodified: the trip update and the vehicle position of one trip are merged
// under the vehicle identifier each of them carries, so both must carry the same one.
func runSameVehicleForBothEntities(c *Ctx) {
	p := c.P
	n := 0
	for _, f := range p.ModFns {
		if !strings.Contains(fnPkgPath(f), "/extensions/") || len(f.Blocks) == 0 || f.Synthetic != "" {
			continue
		}
		has := false
		for _, prm := range f.Params {
			if shortType(prm.Type()) == "*proto.VehicleDescriptor" {
				has = true
			}
		}
		if !has && (len(descriptorLiterals(f)) == 0 || !storesVehicleField(f)) {
			continue
		}
		bad, nst := descriptorKeptIntact(c, f)
		if nst == 0 {
			continue // not a setter
		}
		n++
		c.Check(bad == "", "EXTV", shortName(f), "both entities of a trip get the same derived vehicle descriptor", p.pos(f.Pos()), fmt.Sprintf("%d stores of the descriptor parameter into the entity's vehicle field, one on every path of every entity kind; the descriptor is not changed on the way", nst), "the vehicle under which the entity is merged is not the derived one for every entity: "+bad)
	}
	if n == 0 {
		c.Undecided("EXTV", "extensions", "descriptor setter", "-", "no function of the extensions puts a derived *proto.VehicleDescriptor on an entity: the place where entities get their vehicle identifier was not found")
	}
}

// runElevatorStepFirst: the elevator step replaces the informed entities of an elevator alert by plain stop selectors;
// everything else UpdateAlert derives from the informed entities (the Mercury priorities that decide effect and
// dropping) must read them after that step, or on a path that does not lead to it. A read taken before the step sees
// the published selectors of an elevator alert, whose priorities then overwrite the accessibility effect or drop the
// whole group.
func runElevatorStepFirst(c *Ctx, ua, ue *ssa.Function) {
	p := c.P
	readsEntities := map[*ssa.Function]int{} // 0 unknown, 1 yes, 2 no
	var reads func(g *ssa.Function, d int) bool
	isRead := func(in ssa.Instruction) bool {
		switch x := in.(type) {
		case *ssa.Call:
			if strings.HasSuffix(calleeName(x), "proto.Alert).GetInformedEntity") {
				return true
			}
		case *ssa.UnOp:
			if fa, ok := x.X.(*ssa.FieldAddr); ok && x.Op == token.MUL && shortType(fa.X.Type()) == "*proto.Alert" && fieldName(fa.X.Type(), fa.Field) == "InformedEntity" {
				return true
			}
		}
		return false
	}
	takesAlert := func(call *ssa.Call) bool {
		for _, a := range call.Call.Args {
			if shortType(a.Type()) == "*proto.Alert" {
				return true
			}
		}
		return false
	}
	reads = func(g *ssa.Function, d int) bool {
		if g == nil || len(g.Blocks) == 0 || !p.isModuleFn(g) || d > 3 {
			return false
		}
		if v := readsEntities[g]; v != 0 {
			return v == 1
		}
		readsEntities[g] = 2
		for _, blk := range g.Blocks {
			for _, in := range blk.Instrs {
				if isRead(in) {
					readsEntities[g] = 1
					return true
				}
				if call, ok := in.(*ssa.Call); ok && takesAlert(call) && reads(staticCallee(call), d+1) {
					readsEntities[g] = 1
					return true
				}
			}
		}
		return false
	}
	var reachesStep func(g *ssa.Function, d int) bool
	reachesStep = func(g *ssa.Function, d int) bool {
		if g == ue {
			return true
		}
		if g == nil || len(g.Blocks) == 0 || !p.isModuleFn(g) || d > 2 {
			return false
		}
		for _, blk := range g.Blocks {
			for _, in := range blk.Instrs {
				if call, ok := in.(*ssa.Call); ok && reachesStep(staticCallee(call), d+1) {
					return true
				}
			}
		}
		return false
	}
	var steps, rds []ssa.Instruction
	for _, blk := range ua.Blocks {
		for _, in := range blk.Instrs {
			if call, ok := in.(*ssa.Call); ok {
				if reachesStep(staticCallee(call), 0) {
					steps = append(steps, in)
					continue
				}
				if isRead(in) || (takesAlert(call) && reads(staticCallee(call), 0)) {
					rds = append(rds, in)
				}
				continue
			}
			if isRead(in) {
				rds = append(rds, in)
			}
		}
	}
	if len(steps) == 0 {
		return // reported by the rules that need the step
	}
	before := func(a, b ssa.Instruction) bool {
		if a.Block() == b.Block() {
			for _, in := range a.Block().Instrs {
				if in == a {
					return true
				}
				if in == b {
					return false
				}
			}
		}
		return canReach(a.Block(), b.Block())
	}
	for _, r := range rds {
		bad := ""
		for _, s := range steps {
			if before(r, s) {
				bad = p.ipos(s)
			}
		}
		key := "informed entities are read after the elevator step"
		if bad != "" {
			c.Violated("ALRT", shortName(ua), key, p.ipos(r), "the alert's informed entities are read before the elevator step at "+bad+" replaces them: for an elevator alert the Mercury priorities of the published selectors then decide its effect (instead of accessibility issue) or drop the whole group")
		} else {
			c.Proved("ALRT", shortName(ua), key, p.ipos(r), "the read cannot be followed by the elevator step")
		}
	}
}

// runNoExtensionIsInert: without an extension (and for every extension that embeds the no-op implementation for the
// hooks it does not care about) the parser transcribes the message as it is: the methods of extensions.NoExtensionImpl
// look at nothing and answer constants (no skip, no track, the zero result). A default hook that inspects the entity
// changes ParseRealtime for every caller who never asked for an extension.
func runNoExtensionIsInert(c *Ctx, rule string) {
	p := c.P
	n := 0
	for _, fn := range p.ModFns {
		if fn.Signature.Recv() == nil || len(fn.Blocks) == 0 || !strings.HasSuffix(typeName(fn.Signature.Recv().Type()), "extensions.NoExtensionImpl") {
			continue
		}
		if fn.Synthetic != "" {
			continue
		}
		n++
		bad := ""
		for _, b := range fn.Blocks {
			for _, in := range b.Instrs {
				switch x := in.(type) {
				case *ssa.Return:
					for _, r := range x.Results {
						switch y := r.(type) {
						case *ssa.Const:
						case *ssa.UnOp:
							// the zero value of a struct result: a literal with no stores
							al, isAlloc := y.X.(*ssa.Alloc)
							if y.Op != token.MUL || !isAlloc {
								bad = "it answers " + y.String() + " at " + p.ipos(y)
								break
							}
							for _, rr := range *al.Referrers() {
								if _, isLoad := rr.(*ssa.UnOp); !isLoad {
									if _, isDbg := rr.(*ssa.DebugRef); !isDbg {
										bad = "its answer is built at " + p.ipos(rr)
									}
								}
							}
						default:
							bad = "it answers " + r.String()
						}
					}
				case *ssa.Alloc, *ssa.DebugRef, *ssa.UnOp, *ssa.Jump:
				default:
					if bad == "" {
						bad = "it executes " + in.String() + " at " + p.ipos(in)
					}
				}
			}
		}
		c.Check(bad == "", rule, shortName(fn), "the no-op extension looks at nothing and answers constants", p.pos(fn.Pos()), "the method only returns constants / zero values", bad+": ParseRealtime without an extension (and with every extension that embeds the no-op hooks) no longer transcribes every entity")
	}
	c.Stats[rule+" no-op hooks"] = n
}

// runTablesAreLiterals: the tables of the NYCT alerts extension (priority -> effect, the timetabled no-service
// priorities, ...) are package-level maps written out as literals of constants: assigned once in the initialiser and
// only looked up afterwards. A table that is filled in at init time from the names of the enum, or copied from its own
// entries, silently gains or loses entries when a name does not follow the assumed pattern.
func runTablesAreLiterals(c *Ctx, rule string) {
	p := c.P
	n := 0
	for _, pkg := range p.SSA.AllPackages() {
		if pkg.Pkg.Path() != pkgPathOf("nyctalerts") {
			continue
		}
		var names []string
		for name := range pkg.Members {
			names = append(names, name)
		}
		sort.Strings(names)
		for _, name := range names {
			g, ok := pkg.Members[name].(*ssa.Global)
			if !ok {
				continue
			}
			if _, isMap := deref(g.Type()).Underlying().(*types.Map); !isMap {
				continue
			}
			n++
			ks, _ := constMapOf(g)
			c.Check(ks != nil, rule, "nyctalerts."+name, "the table is a literal of constants", p.pos(g.Pos()), fmt.Sprintf("%d entries, assigned once in the initialiser, only looked up afterwards", len(ks)), "the table is not a literal of constants that is only read: entries are computed or added at run time (from enum names, from other entries), so which priorities it holds is no longer what is written down")
		}
	}
	c.Stats[rule+" package-level tables"] = n
}
