package main

func init() {
	register(&PropSpec{
		ID: "C09",
		Explain: "Decides inertness of rejected rows and the content of warnings structurally, for every file and every position of a bad row: " +
			"(REJECT) in each of the ten row loops every path that leaves the iteration by `continue` (all CFG paths are enumerated) performs no store to memory that outlives the iteration, no update of an outer map, no call with side effects, and leaves every loop-carried variable unchanged (warnings, logging and the csv layer's per-row state exempt); " +
			"(CACHE) the current-trip cache never remembers a key without its trip; (G9) the record slice that encoding/csv reuses under ReuseRecord is kept only in row.cells and leaves package csv only as a copy; no slice field that an exported method of the csv package hands out is refilled in place afterwards (`append(field[:0], ...)`, copy into it); " +
			"(A9) NewStaticWarning takes File/RowNumber/RowContent/HeaderContent from the file's accessors, the accessors return the corresponding fields, and rowNumber is incremented by exactly one only on the path that hands out a row (first data row = 1). " +
			"RowContent hands out the header exactly while the record counter is 0 (its tests on the counter are evaluated for 0..3); (SCAN) no row loop is left by a break; (ROWSTATE) every field of the per-row object of csv.File is renewed on every path of NextRow that announces a row: what a rejected row left there (e.g. the blank required cells noted so far) cannot make the next row rejected. Not decided: which rows count as invalid (C01/C03 cover the reject conditions' targets).",
		Rules: []Rule{
			{Name: "G13", Doc: "a row whose required reference does not resolve is rejected: at every append the references GTFS requires are non-nil (the rules of C03)", MinInstances: 4, Run: runRequiredRefs},
			{Name: "SCAN", Doc: "a loop that does something for each element is not left early (no break out of a processing loop)", MinInstances: 1, Run: func(c *Ctx) { runFullScan(c, staticParseFns(c), "SCAN") }},
			{Name: "REJECT", Doc: "reject paths have no persistent effects", MinInstances: 7, Run: runRejectInert},
			{Name: "CACHE", Doc: "trip cache coherence", MinInstances: 1, Run: runCacheCoherence},
			{Name: "ROWSTATE", Doc: "nothing recorded about one row is still there when the next row is current", MinInstances: 1, Run: runRowState},
			{Name: "WARN", Doc: "G9 reused-buffer escape, A9 warning fields and row numbering", MinInstances: 5, Run: runWarningRules},
		},
	})
}
