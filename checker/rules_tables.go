package main

// E4: decision-table extraction.  A decoder/encoder written as a switch, an
// if-chain or early returns over its parameters is a finite table
// "conditions -> returned constant".  The table is read off the loop-free CFG
// (go/ssa lowers switch and if-chains to the same == tests); no code is
// interpreted.  Anything that is not a comparison of a parameter-derived value
// with a constant stays an opaque atom.

import (
	"fmt"
	"go/constant"
	"go/token"
	"go/types"
	"sort"
	"strings"

	"golang.org/x/tools/go/ssa"
)

type atom struct {
	subj   string // canonical expression tested
	op     string // "==" or "opaque"
	konst  string // constant compared with (ExactString), "nil" for nil tests, "true" for boolean subjects
	neg    bool
	opaque bool
	v      ssa.Value // the condition value (for classification by callers)
}

func (a atom) String() string {
	if a.opaque {
		if a.neg {
			return "!(" + a.subj + ")"
		}
		return a.subj
	}
	if a.neg {
		return a.subj + "!=" + a.konst
	}
	return a.subj + "==" + a.konst
}

type trow struct {
	conds   []atom
	results []string // one per result: "const:<exact>" or "expr:<canon>"
	vals    []ssa.Value
	ret     *ssa.Return
	panics  bool
}

type dtable struct {
	fn   *ssa.Function
	rows []trow
}

func constKey(c *ssa.Const) string {
	if c.Value == nil {
		return "nil"
	}
	if c.Value.Kind() == constant.String {
		return "\"" + constant.StringVal(c.Value) + "\""
	}
	return c.Value.ExactString()
}

func decomposeCond(v ssa.Value) (a atom, ok bool) {
	defer func() {
		if a.v == nil {
			a.v = v
		}
	}()
	if nv, nval := normalizeCond(v, true); nv != v || !nval {
		if _, isBin := nv.(*ssa.BinOp); isBin || !nval {
			orig := v
			a, ok := decomposeCondN(nv)
			if !nval {
				a.neg = !a.neg
			}
			a.v = nv
			_ = orig
			return a, ok
		}
	}
	return decomposeCondN(v)
}

func decomposeCondN(v ssa.Value) (a atom, ok bool) {
	defer func() {
		if a.v == nil {
			a.v = v
		}
	}()
	switch x := v.(type) {
	case *ssa.UnOp:
		if x.Op == token.NOT {
			a, ok := decomposeCond(x.X)
			a.neg = !a.neg
			return a, ok
		}
	case *ssa.BinOp:
		if x.Op == token.EQL || x.Op == token.NEQ {
			var subj ssa.Value
			var k *ssa.Const
			if c, ok := x.Y.(*ssa.Const); ok {
				subj, k = x.X, c
			} else if c, ok := x.X.(*ssa.Const); ok {
				subj, k = x.Y, c
			}
			if k != nil {
				return atom{subj: canon(subj), op: "==", konst: constKey(k), neg: x.Op == token.NEQ}, true
			}
		}
	case *ssa.Parameter:
		return atom{subj: x.Name(), op: "==", konst: "true"}, true
	}
	return atom{subj: canon(v), opaque: true}, true
}

func extractTable(fn *ssa.Function) (*dtable, error) { return extractTableOpt(fn, false) }

// extractTableCut cuts loops at their back edges (each loop body is walked at most once per path).
func extractTableCut(fn *ssa.Function) (*dtable, error) { return extractTableOpt(fn, true) }

func extractTableOpt(fn *ssa.Function, cut bool) (*dtable, error) {
	if fn == nil || len(fn.Blocks) == 0 {
		return nil, fmt.Errorf("no body")
	}
	t := &dtable{fn: fn}
	type frame struct {
		b     *ssa.BasicBlock
		pred  *ssa.BasicBlock
		conds []atom
		path  map[*ssa.BasicBlock]*ssa.BasicBlock // block -> predecessor on this path
	}
	var walk func(f frame, depth int) error
	walk = func(f frame, depth int) error {
		if depth > 400 || len(t.rows) > 5000 {
			return fmt.Errorf("too many paths")
		}
		if _, seen := f.path[f.b]; seen {
			if cut {
				return nil
			}
			return fmt.Errorf("loop in %s: not a decision table", shortName(fn))
		}
		path := map[*ssa.BasicBlock]*ssa.BasicBlock{}
		for k, v := range f.path {
			path[k] = v
		}
		path[f.b] = f.pred
		last := f.b.Instrs[len(f.b.Instrs)-1]
		resolve := func(v ssa.Value) ssa.Value {
			for i := 0; i < 20; i++ {
				phi, ok := v.(*ssa.Phi)
				if !ok {
					return v
				}
				pred := path[phi.Block()]
				if pred == nil {
					return v
				}
				found := false
				for j, p := range phi.Block().Preds {
					if p == pred {
						v = phi.Edges[j]
						found = true
						break
					}
				}
				if !found {
					return v
				}
			}
			return v
		}
		switch x := last.(type) {
		case *ssa.Return:
			// a single boolean result computed by a comparison / flag: split into the two outcomes
			if len(x.Results) == 1 {
				rv := resolve(x.Results[0])
				if _, isConst := rv.(*ssa.Const); !isConst {
					if bt, ok := rv.Type().Underlying().(*types.Basic); ok && bt.Kind() == types.Bool {
						canonPhiHook = func(ph *ssa.Phi) ssa.Value { return resolve(ph) }
						a, _ := decomposeCond(rv)
						canonPhiHook = nil
						for _, outcome := range []bool{true, false} {
							b := a
							if !outcome {
								b.neg = !b.neg
							}
							if contradicts(f.conds, b) {
								continue
							}
							k := ssa.NewConst(constant.MakeBool(outcome), rv.Type())
							t.rows = append(t.rows, trow{conds: append(append([]atom{}, f.conds...), b), ret: x, vals: []ssa.Value{k}, results: []string{"const:" + fmt.Sprint(outcome)}})
						}
						return nil
					}
				}
			}
			row := trow{conds: append([]atom{}, f.conds...), ret: x}
			for _, r := range x.Results {
				rv := resolve(r)
				row.vals = append(row.vals, rv)
				if c, ok := rv.(*ssa.Const); ok {
					row.results = append(row.results, "const:"+constKey(c))
				} else {
					canonPhiHook = func(ph *ssa.Phi) ssa.Value { return resolve(ph) }
					row.results = append(row.results, "expr:"+canon(rv))
					canonPhiHook = nil
				}
			}
			t.rows = append(t.rows, row)
			return nil
		case *ssa.Panic:
			t.rows = append(t.rows, trow{conds: append([]atom{}, f.conds...), panics: true})
			return nil
		case *ssa.Jump:
			return walk(frame{b: f.b.Succs[0], pred: f.b, conds: f.conds, path: path}, depth+1)
		case *ssa.If:
			cv := resolve(x.Cond)
			if c, ok := cv.(*ssa.Const); ok {
				if bv, ok := constBool(c); ok {
					i := 1
					if bv {
						i = 0
					}
					return walk(frame{b: f.b.Succs[i], pred: f.b, conds: f.conds, path: path}, depth+1)
				}
			}
			canonPhiHook = func(ph *ssa.Phi) ssa.Value { return resolve(ph) }
			a, _ := decomposeCond(cv)
			canonPhiHook = nil
			// contradiction pruning: subject already fixed to another constant on this path
			for i, branchNeg := range []bool{false, true} {
				b := a
				if branchNeg {
					b.neg = !b.neg
				}
				if contradicts(f.conds, b) {
					continue
				}
				nc := append(append([]atom{}, f.conds...), b)
				if err := walk(frame{b: f.b.Succs[i], pred: f.b, conds: nc, path: path}, depth+1); err != nil {
					return err
				}
			}
			return nil
		}
		return fmt.Errorf("unexpected terminator %T", last)
	}
	if err := walk(frame{b: fn.Blocks[0], path: map[*ssa.BasicBlock]*ssa.BasicBlock{}}, 0); err != nil {
		return nil, err
	}
	return t, nil
}

func contradicts(conds []atom, a atom) bool {
	for _, c := range conds {
		if c.opaque || a.opaque {
			if c.opaque && a.opaque && c.subj == a.subj && c.neg != a.neg {
				return true
			}
			continue
		}
		if c.subj != a.subj {
			continue
		}
		if !c.neg && !a.neg && c.konst != a.konst {
			return true // x==k1 and x==k2
		}
		if c.konst == a.konst && c.neg != a.neg {
			return true
		}
	}
	return false
}

// lookup evaluates the table under an assignment subject -> constant key.  Subjects
// missing from the assignment make a row that tests them undetermined.
// Returns the unique matching row's result idx, or "" with a reason.
func (t *dtable) lookup(assign map[string]string, result int) (string, string) {
	var hits []string
	for _, r := range t.rows {
		match, undet := true, false
		for _, a := range r.conds {
			if a.opaque {
				undet = true
				continue
			}
			v, ok := assign[a.subj]
			if !ok {
				undet = true
				continue
			}
			if (v == a.konst) == a.neg {
				match = false
				break
			}
		}
		if !match {
			continue
		}
		if undet {
			return "", "row depends on a condition outside the query: " + condsString(r.conds)
		}
		if r.panics {
			hits = append(hits, "panic")
		} else if result < len(r.results) {
			hits = append(hits, r.results[result])
		}
	}
	if len(hits) == 0 {
		return "", "no row matches"
	}
	for _, h := range hits[1:] {
		if h != hits[0] {
			return "", "ambiguous rows: " + strings.Join(hits, " | ")
		}
	}
	return hits[0], ""
}

func condsString(cs []atom) string {
	var s []string
	for _, c := range cs {
		s = append(s, c.String())
	}
	return strings.Join(s, " && ")
}

// pairs returns, for single-subject tables, the map constant -> result and the default
// result (rows in which the subject is only compared unequal).
func (t *dtable) pairs(subj string, result int) (m map[string]string, def string, err error) {
	m = map[string]string{}
	def = ""
	for _, r := range t.rows {
		var eq *atom
		ok := true
		for i := range r.conds {
			a := r.conds[i]
			if a.opaque || a.subj != subj {
				ok = false
				break
			}
			if !a.neg {
				if eq != nil {
					ok = false
					break
				}
				eq = &r.conds[i]
			}
		}
		if !ok {
			return nil, "", fmt.Errorf("row with conditions outside subject %s: %s", subj, condsString(r.conds))
		}
		res := "panic"
		if !r.panics {
			res = r.results[result]
		}
		if eq != nil {
			if old, dup := m[eq.konst]; dup && old != res {
				return nil, "", fmt.Errorf("constant %s maps to both %s and %s", eq.konst, old, res)
			}
			m[eq.konst] = res
		} else {
			if def != "" && def != res {
				return nil, "", fmt.Errorf("two default rows: %s and %s", def, res)
			}
			def = res
		}
	}
	return m, def, nil
}

func (t *dtable) String() string {
	var rows []string
	for _, r := range t.rows {
		res := strings.Join(r.results, ",")
		if r.panics {
			res = "panic"
		}
		rows = append(rows, condsString(r.conds)+" -> "+res)
	}
	sort.Strings(rows)
	return strings.Join(rows, "; ")
}

// constOf returns the "const:<exact>" key of a package-level constant, e.g. gtfs.DirectionID_False.
func (c *Ctx) constOf(pkgShort, name string) string {
	pk := c.P.ByPath[pkgPathOf(pkgShort)]
	if pk == nil {
		return "?"
	}
	obj := pk.Types.Scope().Lookup(name)
	k, ok := obj.(interface{ Val() constant.Value })
	if !ok || obj == nil {
		c.Undecided("ANCHOR", pkgShort+":"+name, "resolve", "-", "UNRESOLVED ANCHOR constant "+pkgShort+"."+name)
		return "?"
	}
	v := k.Val()
	if v.Kind() == constant.String {
		return "const:\"" + constant.StringVal(v) + "\""
	}
	return "const:" + v.ExactString()
}
