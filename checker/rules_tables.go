package main

// E4: decision-table extraction.  A decoder/encoder written as a switch, an
// if-chain or early returns over its parameters is a finite table
// "conditions -> returned constant".  The table is read off the loop-free CFG
// (go/ssa lowers switch and if-chains to the same == tests); no code is
// interpreted.  Anything that is not a comparison of a parameter-derived value
// with a constant stays an opaque atom.

import (
	"fmt"
	"go/constant"
	"go/token"
	"go/types"
	"sort"
	"strings"

	"golang.org/x/tools/go/ssa"
)

type atom struct {
	subj   string // canonical expression tested
	op     string // "==" or "opaque"
	konst  string // constant compared with (ExactString), "nil" for nil tests, "true" for boolean subjects
	neg    bool
	opaque bool
	v      ssa.Value // the condition value (for classification by callers)
}

func (a atom) String() string {
	if a.opaque {
		if a.neg {
			return "!(" + a.subj + ")"
		}
		return a.subj
	}
	if a.neg {
		return a.subj + "!=" + a.konst
	}
	return a.subj + "==" + a.konst
}

type trow struct {
	conds   []atom
	results []string // one per result: "const:<exact>" or "expr:<canon>"
	vals    []ssa.Value
	ret     *ssa.Return
	panics  bool
}

type dtable struct {
	fn   *ssa.Function
	rows []trow
}

func constKey(c *ssa.Const) string {
	if c.Value == nil {
		return "nil"
	}
	if c.Value.Kind() == constant.String {
		return "\"" + constant.StringVal(c.Value) + "\""
	}
	return c.Value.ExactString()
}

func decomposeCond(v ssa.Value) (a atom, ok bool) {
	defer func() {
		if a.v == nil {
			a.v = v
		}
	}()
	if nv, nval := normalizeCond(v, true); nv != v || !nval {
		if _, isBin := nv.(*ssa.BinOp); isBin || !nval {
			orig := v
			a, ok := decomposeCondN(nv)
			if !nval {
				a.neg = !a.neg
			}
			a.v = nv
			_ = orig
			return a, ok
		}
	}
	return decomposeCondN(v)
}

func decomposeCondN(v ssa.Value) (a atom, ok bool) {
	defer func() {
		if a.v == nil {
			a.v = v
		}
	}()
	switch x := v.(type) {
	case *ssa.UnOp:
		if x.Op == token.NOT {
			a, ok := decomposeCond(x.X)
			a.neg = !a.neg
			return a, ok
		}
	case *ssa.BinOp:
		if x.Op == token.EQL || x.Op == token.NEQ {
			var subj ssa.Value
			var k *ssa.Const
			if c, ok := x.Y.(*ssa.Const); ok {
				subj, k = x.X, c
			} else if c, ok := x.X.(*ssa.Const); ok {
				subj, k = x.Y, c
			}
			if k != nil {
				return atom{subj: canon(subj), op: "==", konst: constKey(k), neg: x.Op == token.NEQ}, true
			}
		}
	case *ssa.Parameter:
		return atom{subj: x.Name(), op: "==", konst: "true"}, true
	}
	return atom{subj: canon(v), opaque: true}, true
}

func extractTable(fn *ssa.Function) (*dtable, error) { return extractTableOpt(fn, false) }

// extractTableCut cuts loops at their back edges (each loop body is walked at most once per path).
func extractTableCut(fn *ssa.Function) (*dtable, error) { return extractTableOpt(fn, true) }

func extractTableOpt(fn *ssa.Function, cut bool) (*dtable, error) {
	if fn == nil || len(fn.Blocks) == 0 {
		return nil, fmt.Errorf("no body")
	}
	t := &dtable{fn: fn}
	type frame struct {
		b     *ssa.BasicBlock
		pred  *ssa.BasicBlock
		conds []atom
		path  map[*ssa.BasicBlock]*ssa.BasicBlock // block -> predecessor on this path
	}
	var walk func(f frame, depth int) error
	walk = func(f frame, depth int) error {
		if depth > 400 || len(t.rows) > 5000 {
			return fmt.Errorf("too many paths")
		}
		if _, seen := f.path[f.b]; seen {
			if cut {
				return nil
			}
			return fmt.Errorf("loop in %s: not a decision table", shortName(fn))
		}
		path := map[*ssa.BasicBlock]*ssa.BasicBlock{}
		for k, v := range f.path {
			path[k] = v
		}
		path[f.b] = f.pred
		last := f.b.Instrs[len(f.b.Instrs)-1]
		resolve := func(v ssa.Value) ssa.Value {
			for i := 0; i < 20; i++ {
				phi, ok := v.(*ssa.Phi)
				if !ok {
					return v
				}
				pred := path[phi.Block()]
				if pred == nil {
					return v
				}
				found := false
				for j, p := range phi.Block().Preds {
					if p == pred {
						v = phi.Edges[j]
						found = true
						break
					}
				}
				if !found {
					return v
				}
			}
			return v
		}
		switch x := last.(type) {
		case *ssa.Return:
			// a single boolean result computed by a comparison / flag: split into the two outcomes
			if len(x.Results) == 1 {
				rv := resolve(x.Results[0])
				if _, isConst := rv.(*ssa.Const); !isConst {
					if bt, ok := rv.Type().Underlying().(*types.Basic); ok && bt.Kind() == types.Bool {
						canonPhiHook = func(ph *ssa.Phi) ssa.Value { return resolve(ph) }
						a, _ := decomposeCond(rv)
						canonPhiHook = nil
						for _, outcome := range []bool{true, false} {
							b := a
							if !outcome {
								b.neg = !b.neg
							}
							if contradicts(f.conds, b) {
								continue
							}
							k := ssa.NewConst(constant.MakeBool(outcome), rv.Type())
							t.rows = append(t.rows, trow{conds: append(append([]atom{}, f.conds...), b), ret: x, vals: []ssa.Value{k}, results: []string{"const:" + fmt.Sprint(outcome)}})
						}
						return nil
					}
				}
			}
			row := trow{conds: append([]atom{}, f.conds...), ret: x}
			for _, r := range x.Results {
				rv := resolve(r)
				row.vals = append(row.vals, rv)
				if c, ok := rv.(*ssa.Const); ok {
					row.results = append(row.results, "const:"+constKey(c))
				} else {
					canonPhiHook = func(ph *ssa.Phi) ssa.Value { return resolve(ph) }
					row.results = append(row.results, "expr:"+canon(rv))
					canonPhiHook = nil
				}
			}
			t.rows = append(t.rows, row)
			return nil
		case *ssa.Panic:
			t.rows = append(t.rows, trow{conds: append([]atom{}, f.conds...), panics: true})
			return nil
		case *ssa.Jump:
			return walk(frame{b: f.b.Succs[0], pred: f.b, conds: f.conds, path: path}, depth+1)
		case *ssa.If:
			cv := resolve(x.Cond)
			if c, ok := cv.(*ssa.Const); ok {
				if bv, ok := constBool(c); ok {
					i := 1
					if bv {
						i = 0
					}
					return walk(frame{b: f.b.Succs[i], pred: f.b, conds: f.conds, path: path}, depth+1)
				}
			}
			canonPhiHook = func(ph *ssa.Phi) ssa.Value { return resolve(ph) }
			a, _ := decomposeCond(cv)
			canonPhiHook = nil
			// contradiction pruning: subject already fixed to another constant on this path
			for i, branchNeg := range []bool{false, true} {
				b := a
				if branchNeg {
					b.neg = !b.neg
				}
				if contradicts(f.conds, b) {
					continue
				}
				nc := append(append([]atom{}, f.conds...), b)
				if err := walk(frame{b: f.b.Succs[i], pred: f.b, conds: nc, path: path}, depth+1); err != nil {
					return err
				}
			}
			return nil
		}
		return fmt.Errorf("unexpected terminator %T", last)
	}
	if err := walk(frame{b: fn.Blocks[0], path: map[*ssa.BasicBlock]*ssa.BasicBlock{}}, 0); err != nil {
		return nil, err
	}
	expandMapLookups(t)
	return t, nil
}

// constMapOf: the entries of a package-level map that is a read-only table: assigned once, in the package
// initialiser, from a map literal of constants, and never updated, deleted from, re-assigned or handed out (every other
// use in the module is a lookup, a len or a range). nil when the global is not such a table.
func constMapOf(g *ssa.Global) (keys, vals []*ssa.Const) {
	if resolveProg == nil || g.Pkg == nil {
		return nil, nil
	}
	if _, isMap := g.Type().(*types.Pointer).Elem().Underlying().(*types.Map); !isMap {
		return nil, nil
	}
	fns := append([]*ssa.Function{}, resolveProg.ModFns...)
	initFn := g.Pkg.Func("init")
	if initFn != nil {
		fns = append(fns, initFn)
	}
	nStores := 0
	scanned := map[*ssa.Function]bool{}
	for _, fn := range fns {
		if scanned[fn] {
			continue
		}
		scanned[fn] = true
		for _, b := range fn.Blocks {
			for _, in := range b.Instrs {
				switch x := in.(type) {
				case *ssa.Store:
					if x.Addr != ssa.Value(g) {
						if x.Val == ssa.Value(g) {
							return nil, nil
						}
						continue
					}
					mm, isMake := x.Val.(*ssa.MakeMap)
					if fn != initFn || !isMake {
						return nil, nil
					}
					nStores++
					for _, r := range *mm.Referrers() {
						switch u := r.(type) {
						case *ssa.MapUpdate:
							k, isK := u.Key.(*ssa.Const)
							v, isV := u.Value.(*ssa.Const)
							if !isK || !isV {
								return nil, nil
							}
							keys, vals = append(keys, k), append(vals, v)
						case *ssa.Store, *ssa.DebugRef:
						default:
							return nil, nil
						}
					}
				case *ssa.UnOp:
					if x.Op != token.MUL || x.X != ssa.Value(g) {
						continue
					}
					for _, r := range *x.Referrers() {
						switch u := r.(type) {
						case *ssa.Lookup, *ssa.Range, *ssa.DebugRef:
						case *ssa.Call:
							if b, isB := u.Call.Value.(*ssa.Builtin); !isB || b.Name() != "len" {
								return nil, nil
							}
						default:
							return nil, nil
						}
					}
				default:
					for _, op := range in.Operands(nil) {
						if op != nil && *op == ssa.Value(g) {
							return nil, nil
						}
					}
				}
			}
		}
	}
	if nStores != 1 || len(keys) == 0 {
		return nil, nil
	}
	return keys, vals
}

// expandMapLookups: a decoder that looks its argument up in a read-only package-level table of constants is the
// table: a row under the "found" outcome of such a lookup becomes one row per entry (argument == key, the looked-up
// value replaced by the entry's constant), a row under "not found" gets argument != key for every key.
func expandMapLookups(t *dtable) {
	lookupOf := func(v ssa.Value) (*ssa.Lookup, []*ssa.Const, []*ssa.Const) {
		ex, ok := v.(*ssa.Extract)
		if !ok {
			return nil, nil, nil
		}
		lk, ok := ex.Tuple.(*ssa.Lookup)
		if !ok || !lk.CommaOk {
			return nil, nil, nil
		}
		ld, ok := lk.X.(*ssa.UnOp)
		if !ok || ld.Op != token.MUL {
			return nil, nil, nil
		}
		g, ok := ld.X.(*ssa.Global)
		if !ok {
			return nil, nil, nil
		}
		ks, vs := constMapOf(g)
		if ks == nil {
			return nil, nil, nil
		}
		return lk, ks, vs
	}
	var out []trow
	for _, r := range t.rows {
		expanded := false
		for i, a := range r.conds {
			ex, isEx := a.v.(*ssa.Extract)
			if !a.opaque || !isEx || ex.Index != 1 {
				continue
			}
			lk, ks, vs := lookupOf(ex)
			if lk == nil {
				continue
			}
			rest := append(append([]atom{}, r.conds[:i]...), r.conds[i+1:]...)
			subj := canon(lk.Index)
			if a.neg {
				nr := r
				nr.conds = rest
				seen := map[string]bool{}
				for _, k := range ks {
					if kk := constKey(k); !seen[kk] {
						seen[kk] = true
						nr.conds = append(nr.conds, atom{subj: subj, op: "==", konst: kk, neg: true})
					}
				}
				out = append(out, nr)
			} else {
				// later duplicates of a key in a literal do not compile; each key once
				for j, k := range ks {
					nr := trow{ret: r.ret, panics: r.panics}
					nr.conds = append(append([]atom{}, rest...), atom{subj: subj, op: "==", konst: constKey(k)})
					for ri, rv := range r.vals {
						if rex, isRex := rv.(*ssa.Extract); isRex && rex.Tuple == ssa.Value(lk) && rex.Index == 0 {
							nr.vals = append(nr.vals, vs[j])
							nr.results = append(nr.results, "const:"+constKey(vs[j]))
						} else {
							nr.vals = append(nr.vals, rv)
							nr.results = append(nr.results, r.results[ri])
						}
					}
					out = append(out, nr)
				}
			}
			expanded = true
			break
		}
		if !expanded {
			out = append(out, r)
		}
	}
	t.rows = out
}

func contradicts(conds []atom, a atom) bool {
	for _, c := range conds {
		if c.opaque || a.opaque {
			if c.opaque && a.opaque && c.subj == a.subj && c.neg != a.neg {
				return true
			}
			continue
		}
		if c.subj != a.subj {
			continue
		}
		if !c.neg && !a.neg && c.konst != a.konst {
			return true // x==k1 and x==k2
		}
		if c.konst == a.konst && c.neg != a.neg {
			return true
		}
	}
	return false
}

// lookup evaluates the table under an assignment subject -> constant key.  Subjects
// missing from the assignment make a row that tests them undetermined.
// Returns the unique matching row's result idx, or "" with a reason.
func (t *dtable) lookup(assign map[string]string, result int) (string, string) {
	var hits []string
	for _, r := range t.rows {
		match, undet := true, false
		for _, a := range r.conds {
			if a.opaque {
				undet = true
				continue
			}
			v, ok := assign[a.subj]
			if !ok {
				undet = true
				continue
			}
			if (v == a.konst) == a.neg {
				match = false
				break
			}
		}
		if !match {
			continue
		}
		if undet {
			return "", "row depends on a condition outside the query: " + condsString(r.conds)
		}
		if r.panics {
			hits = append(hits, "panic")
		} else if result < len(r.results) {
			hits = append(hits, r.results[result])
		}
	}
	if len(hits) == 0 {
		return "", "no row matches"
	}
	for _, h := range hits[1:] {
		if h != hits[0] {
			return "", "ambiguous rows: " + strings.Join(hits, " | ")
		}
	}
	return hits[0], ""
}

func condsString(cs []atom) string {
	var s []string
	for _, c := range cs {
		s = append(s, c.String())
	}
	return strings.Join(s, " && ")
}

// pairs returns, for single-subject tables, the map constant -> result and the default
// result (rows in which the subject is only compared unequal).
func (t *dtable) pairs(subj string, result int) (m map[string]string, def string, err error) {
	m = map[string]string{}
	def = ""
	for _, r := range t.rows {
		var eq *atom
		ok := true
		for i := range r.conds {
			a := r.conds[i]
			if a.opaque || a.subj != subj {
				ok = false
				break
			}
			if !a.neg {
				if eq != nil {
					ok = false
					break
				}
				eq = &r.conds[i]
			}
		}
		if !ok {
			return nil, "", fmt.Errorf("row with conditions outside subject %s: %s", subj, condsString(r.conds))
		}
		res := "panic"
		if !r.panics {
			res = r.results[result]
		}
		if eq != nil {
			if old, dup := m[eq.konst]; dup && old != res {
				return nil, "", fmt.Errorf("constant %s maps to both %s and %s", eq.konst, old, res)
			}
			m[eq.konst] = res
		} else {
			if def != "" && def != res {
				return nil, "", fmt.Errorf("two default rows: %s and %s", def, res)
			}
			def = res
		}
	}
	return m, def, nil
}

func (t *dtable) String() string {
	var rows []string
	for _, r := range t.rows {
		res := strings.Join(r.results, ",")
		if r.panics {
			res = "panic"
		}
		rows = append(rows, condsString(r.conds)+" -> "+res)
	}
	sort.Strings(rows)
	return strings.Join(rows, "; ")
}

// constOf returns the "const:<exact>" key of a package-level constant, e.g. gtfs.DirectionID_False.
func (c *Ctx) constOf(pkgShort, name string) string {
	pk := c.P.ByPath[pkgPathOf(pkgShort)]
	if pk == nil {
		return "?"
	}
	obj := pk.Types.Scope().Lookup(name)
	k, ok := obj.(interface{ Val() constant.Value })
	if !ok || obj == nil {
		c.Undecided("ANCHOR", pkgShort+":"+name, "resolve", "-", "UNRESOLVED ANCHOR constant "+pkgShort+"."+name)
		return "?"
	}
	v := k.Val()
	if v.Kind() == constant.String {
		return "const:\"" + constant.StringVal(v) + "\""
	}
	return "const:" + v.ExactString()
}

// ---------------------------------------------------------------- composition

// extractTableComposed: the decision table of fn with calls of small loop-free helpers of the module, whose results
// are tested by fn's conditions, replaced by what those helpers return: for every path of the helper a copy of fn's
// table in which the call is spelled as that path's result, under that path's conditions (in terms of the call's
// arguments). Rows whose conditions contradict each other are dropped. Falls back to the plain table when there is
// nothing to compose.
func (c *Ctx) extractTableComposed(fn *ssa.Function, depth int) (*dtable, error) {
	tb, err := extractTable(fn)
	if err != nil || depth > 2 {
		return tb, err
	}
	tb = c.expandTailCalls(tb, depth)
	// helper calls among the operands of the conditions
	var target *ssa.Call
	var visit func(v ssa.Value, d int)
	visit = func(v ssa.Value, d int) {
		if target != nil || d > 4 || v == nil {
			return
		}
		if _, done := canonSubst[v]; done {
			return
		}
		switch x := v.(type) {
		case *ssa.Extract:
			// one result of a (value, ok) helper
			if call, isCall := x.Tuple.(*ssa.Call); isCall {
				h := call.Call.StaticCallee()
				if h != nil && !call.Call.IsInvoke() && c.P.isModuleFn(h) && !isProtoPkg(fnPkgPath(h)) && len(h.Blocks) > 0 &&
					h.Signature.Results().Len() > 1 && len(h.Params) == len(call.Call.Args) && call.Parent() == fn {
					if _, done := canonSubst[x]; !done {
						target = call
					}
				}
			}
		case *ssa.Call:
			h := x.Call.StaticCallee()
			if h != nil && !x.Call.IsInvoke() && c.P.isModuleFn(h) && !isProtoPkg(fnPkgPath(h)) && !isPureLeaf(h) && len(h.Blocks) > 0 &&
				h.Signature.Results().Len() == 1 && len(h.Params) == len(x.Call.Args) && x.Parent() == fn {
				target = x
			}
		case *ssa.BinOp:
			visit(x.X, d+1)
			visit(x.Y, d+1)
		case *ssa.UnOp:
			visit(x.X, d+1)
		case *ssa.Convert:
			visit(x.X, d+1)
		case *ssa.ChangeType:
			visit(x.X, d+1)
		}
	}
	for _, r := range tb.rows {
		for _, a := range r.conds {
			visit(a.v, 0)
		}
	}
	if target == nil {
		return tb, nil
	}
	h := target.Call.StaticCallee()
	saved := canonSubst
	restore := func() { canonSubst = saved }
	defer restore()
	with := func(extra map[ssa.Value]string) {
		m := map[ssa.Value]string{}
		for k, v := range saved {
			m[k] = v
		}
		for k, v := range extra {
			m[k] = v
		}
		canonSubst = m
	}
	// the helper's table in terms of the call's arguments
	args := map[ssa.Value]string{}
	for i, pa := range h.Params {
		args[pa] = canon(target.Call.Args[i])
	}
	with(args)
	inner, err := c.extractTableComposed(h, depth+1)
	if err != nil || len(inner.rows) > 8 {
		canonSubst = saved
		return tb, nil // not a small loop-free helper: leave the call opaque
	}
	type alt struct {
		conds []atom
		res   []string
	}
	nres := h.Signature.Results().Len()
	var alts []alt
	for _, ir := range inner.rows {
		if ir.panics || len(ir.results) != nres {
			canonSubst = saved
			return tb, nil
		}
		var rs []string
		for _, r0 := range ir.results {
			res := strings.TrimPrefix(strings.TrimPrefix(r0, "expr:"), "const:")
			if strings.HasPrefix(r0, "const:") {
				res = "const(" + res + ")"
			}
			rs = append(rs, res)
		}
		alts = append(alts, alt{ir.conds, rs})
	}
	out := &dtable{fn: fn}
	for _, al := range alts {
		sub := map[ssa.Value]string{}
		if nres == 1 {
			sub[target] = al.res[0]
		} else if target.Referrers() != nil {
			for _, r := range *target.Referrers() {
				if ex, ok := r.(*ssa.Extract); ok && ex.Index < len(al.res) {
					sub[ex] = al.res[ex.Index]
				}
			}
		}
		with(sub)
		tk, err := c.extractTableComposed(fn, depth+1)
		if err != nil {
			canonSubst = saved
			return tb, nil
		}
		for _, r := range tk.rows {
			var conds []atom
			bad := false
			for _, a := range append(append([]atom{}, al.conds...), r.conds...) {
				// a test of a flag the helper answered with a constant: decided
				switch a.String() {
				case "const(true)", "!(const(false))":
					continue
				case "const(false)", "!(const(true))":
					bad = true
				}
				conds = append(conds, a)
			}
			for i := range conds {
				if contradicts(conds[:i], conds[i]) {
					bad = true
				}
			}
			if bad {
				continue
			}
			r.conds = conds
			out.rows = append(out.rows, r)
		}
	}
	return out, nil
}

// expandTailCalls: a row that answers with the result of a small loop-free helper of the module (`return h(args)`)
// is replaced by the helper's rows, written in terms of the call's arguments.
func (c *Ctx) expandTailCalls(tb *dtable, depth int) *dtable {
	out := &dtable{fn: tb.fn}
	for _, r := range tb.rows {
		var call *ssa.Call
		if !r.panics && len(r.vals) == 1 {
			call, _ = r.vals[0].(*ssa.Call)
		}
		var h *ssa.Function
		if call != nil {
			h = call.Call.StaticCallee()
		}
		if h == nil || call.Call.IsInvoke() || !c.P.isModuleFn(h) || isProtoPkg(fnPkgPath(h)) || len(h.Blocks) < 2 ||
			h.Signature.Results().Len() != 1 || len(h.Params) != len(call.Call.Args) || h == tb.fn {
			out.rows = append(out.rows, r)
			continue
		}
		saved := canonSubst
		m := map[ssa.Value]string{}
		for k, v := range saved {
			m[k] = v
		}
		for i, pa := range h.Params {
			m[pa] = canon(call.Call.Args[i])
		}
		canonSubst = m
		inner, err := c.extractTableComposed(h, depth+1)
		canonSubst = saved
		if err != nil || len(inner.rows) > 8 {
			out.rows = append(out.rows, r)
			continue
		}
		for _, ir := range inner.rows {
			conds := append(append([]atom{}, r.conds...), ir.conds...)
			bad := false
			for i := range conds {
				if contradicts(conds[:i], conds[i]) {
					bad = true
				}
			}
			if bad {
				continue
			}
			nr := ir
			nr.conds = conds
			nr.ret = r.ret
			out.rows = append(out.rows, nr)
		}
	}
	return out
}

// ---------------------------------------------------------------- semantic comparison of decision tables

type prow struct {
	atoms []patom
	res   string
}
type patom struct {
	key string // the positive form: "S==k" or an opaque expression
	pos bool
}

// parseRow reads a row as printed by condsString + " -> " + result. ok=false: the row can never match (a condition
// that is false whatever the input, e.g. const(0)!=0).
func parseRow(r string) (prow, bool) {
	i := strings.LastIndex(r, " -> ")
	out := prow{res: r[i+4:]}
	for _, a := range strings.Split(r[:i], " && ") {
		if a == "" {
			continue
		}
		pa := patom{pos: true}
		switch {
		case strings.HasPrefix(a, "!(") && strings.HasSuffix(a, ")"):
			pa.key, pa.pos = a[2:len(a)-1], false
		case strings.Contains(a, "!=") && !strings.HasPrefix(a, "("):
			j := strings.LastIndex(a, "!=")
			pa.key, pa.pos = a[:j]+"=="+a[j+2:], false
		default:
			pa.key = a
		}
		// conditions on constants
		if pa.key == "const(true)" || pa.key == "const(false)" {
			if (pa.key == "const(true)") != pa.pos {
				return out, false
			}
			continue
		}
		if j := strings.LastIndex(pa.key, "=="); j > 0 && strings.HasPrefix(pa.key, "const(") && !strings.HasPrefix(pa.key, "(") {
			lhs := strings.TrimSuffix(strings.TrimPrefix(pa.key[:j], "const("), ")")
			truth := lhs == pa.key[j+2:]
			if truth != pa.pos {
				return out, false
			}
			continue
		}
		out.atoms = append(out.atoms, pa)
	}
	return out, true
}

// tablesEquivalent: the two tables (rows as printed) answer alike for every assignment of truth values to the
// conditions they mention (equalities of one subject with different constants are mutually exclusive). Impossible
// assignments are included on both sides alike, so they cannot make equivalent tables differ unless one of them
// relies on an impossibility the other does not.
func tablesEquivalent(got, want []string) (bool, string) {
	parse := func(rows []string) []prow {
		var out []prow
		for _, r := range rows {
			if pr, ok := parseRow(r); ok {
				out = append(out, pr)
			}
		}
		return out
	}
	g, w := parse(got), parse(want)
	keys := map[string]bool{}
	for _, rows := range [][]prow{g, w} {
		for _, r := range rows {
			for _, a := range r.atoms {
				keys[a.key] = true
			}
		}
	}
	var ks []string
	for k := range keys {
		ks = append(ks, k)
	}
	sort.Strings(ks)
	if len(ks) > 16 {
		return false, fmt.Sprintf("%d distinct conditions: too many to compare exhaustively", len(ks))
	}
	idx := map[string]int{}
	subjOf := map[int]string{}
	for i, k := range ks {
		idx[k] = i
		if j := strings.LastIndex(k, "=="); j > 0 && !strings.HasPrefix(k, "(") {
			subjOf[i] = k[:j]
		}
	}
	eval := func(rows []prow, val uint) (string, bool) {
		res := ""
		for _, r := range rows {
			match := true
			for _, a := range r.atoms {
				if (val>>uint(idx[a.key])&1 == 1) != a.pos {
					match = false
					break
				}
			}
			if !match {
				continue
			}
			if res != "" && res != r.res {
				return "ambiguous: " + res + " and " + r.res, false
			}
			res = r.res
		}
		if res == "" {
			return "no row", false
		}
		return res, true
	}
	for val := uint(0); val < 1<<uint(len(ks)); val++ {
		// one subject equals at most one constant
		okVal := true
		seen := map[string]bool{}
		for i := range ks {
			if val>>uint(i)&1 == 1 && subjOf[i] != "" {
				if seen[subjOf[i]] {
					okVal = false
				}
				seen[subjOf[i]] = true
			}
		}
		if !okVal {
			continue
		}
		rw, okW := eval(w, val)
		if !okW {
			continue // the definition does not speak about this assignment (it cannot occur)
		}
		rg, okG := eval(g, val)
		if !okG || rg != rw {
			var desc []string
			for i, k := range ks {
				if val>>uint(i)&1 == 1 {
					desc = append(desc, k)
				} else {
					desc = append(desc, "!("+k+")")
				}
			}
			return false, "under " + strings.Join(desc, " && ") + " the code answers " + rg + ", the definition " + rw
		}
	}
	return true, ""
}

// ---------------------------------------------------------------- decoders written as a table lookup

// lookupLoopTable: dec is `for i := range T { if T[i].k == param { return T[i].v } }; return d` over a package-level
// table T of {key, value} pairs that is only written by its initialiser. Returns the equivalent decision table
// (param == key_j -> value_j; otherwise d). The table is read from the stores of the package initialiser.
func (c *Ctx) lookupLoopTable(dec *ssa.Function) (*dtable, bool) {
	if len(dec.Params) == 0 || len(dec.Blocks) == 0 {
		return nil, false
	}
	loops := naturalLoops(dec)
	if len(loops) != 1 {
		return nil, false
	}
	l := loops[0]
	var g *ssa.Global
	var keyField, valField = -1, -1
	var param *ssa.Parameter
	// the comparison and the return of the matching element
	for b := range l.Blocks {
		iff, ok := b.Instrs[len(b.Instrs)-1].(*ssa.If)
		if !ok {
			continue
		}
		bo, ok := iff.Cond.(*ssa.BinOp)
		if !ok || bo.Op != token.EQL {
			continue
		}
		var elemLoad *ssa.UnOp
		var prm *ssa.Parameter
		for _, pair := range [][2]ssa.Value{{bo.X, bo.Y}, {bo.Y, bo.X}} {
			if ld, ok := pair[0].(*ssa.UnOp); ok && ld.Op == token.MUL {
				if pa, ok := pair[1].(*ssa.Parameter); ok {
					elemLoad, prm = ld, pa
				}
			}
		}
		if elemLoad == nil {
			continue
		}
		fa, ok := elemLoad.X.(*ssa.FieldAddr)
		if !ok {
			continue
		}
		ia, ok := fa.X.(*ssa.IndexAddr)
		if !ok {
			continue
		}
		gl, ok := ia.X.(*ssa.Global)
		if !ok {
			continue
		}
		if _, isR := rangeIndexConst(ia.Index); !isR && rangeIndexSeq(ia.Index) == nil {
			continue
		}
		// the true edge returns the value field of the same element
		tb := b.Succs[0]
		ret, ok := tb.Instrs[len(tb.Instrs)-1].(*ssa.Return)
		if !ok || len(ret.Results) != 1 {
			continue
		}
		vld, ok := ret.Results[0].(*ssa.UnOp)
		if !ok {
			continue
		}
		vfa, ok := vld.X.(*ssa.FieldAddr)
		if !ok {
			continue
		}
		via, ok := vfa.X.(*ssa.IndexAddr)
		if !ok || via.X != ssa.Value(gl) || via.Index != ia.Index {
			continue
		}
		g, keyField, valField, param = gl, fa.Field, vfa.Field, prm
	}
	if g == nil {
		return nil, false
	}
	// every other return of dec is one constant (the default), after the loop
	var def *ssa.Const
	for _, b := range dec.Blocks {
		ret, ok := b.Instrs[len(b.Instrs)-1].(*ssa.Return)
		if !ok {
			continue
		}
		if k, isC := ret.Results[0].(*ssa.Const); isC {
			if def != nil && constKey(def) != constKey(k) {
				return nil, false
			}
			def = k
		}
	}
	if def == nil {
		return nil, false
	}
	// the table is written only by the package initialiser, with constants
	keys := map[int64]*ssa.Const{}
	vals := map[int64]*ssa.Const{}
	record := func(k int64, field int, cv *ssa.Const) {
		switch field {
		case keyField:
			keys[k] = cv
		case valField:
			vals[k] = cv
		}
	}
	// fieldsOfStructLit: the constant field stores of a local struct literal
	fieldsOfStructLit := func(al *ssa.Alloc, k int64) bool {
		for _, r := range *al.Referrers() {
			fa, ok := r.(*ssa.FieldAddr)
			if !ok {
				continue
			}
			for _, r2 := range *fa.Referrers() {
				if st, ok := r2.(*ssa.Store); ok && st.Addr == ssa.Value(fa) {
					cv, isC := st.Val.(*ssa.Const)
					if !isC {
						return false
					}
					record(k, fa.Field, cv)
				}
			}
		}
		return true
	}
	// elementsOfArrayLit: arr[k] = <struct literal> / arr[k].f = const
	elementsOfArrayLit := func(arr ssa.Value) bool {
		refs := arr.Referrers()
		if refs == nil {
			return false
		}
		for _, r := range *refs {
			ia, ok := r.(*ssa.IndexAddr)
			if !ok {
				continue
			}
			k, isK := constInt(ia.Index)
			for _, r2 := range *ia.Referrers() {
				switch u := r2.(type) {
				case *ssa.Store:
					if u.Addr != ssa.Value(ia) {
						continue
					}
					if !isK {
						return false
					}
					ld, ok := u.Val.(*ssa.UnOp)
					if !ok {
						return false
					}
					sl, ok := ld.X.(*ssa.Alloc)
					if !ok || !fieldsOfStructLit(sl, k) {
						return false
					}
				case *ssa.FieldAddr:
					for _, r3 := range *u.Referrers() {
						if st, ok := r3.(*ssa.Store); ok && st.Addr == ssa.Value(u) {
							cv, isC := st.Val.(*ssa.Const)
							if !isC || !isK {
								return false
							}
							record(k, u.Field, cv)
						}
					}
				}
			}
		}
		return true
	}
	nWhole := 0
	inPlace := false
	fnsToScan := append([]*ssa.Function{}, c.P.ModFns...)
	if g.Pkg != nil {
		if initFn := g.Pkg.Func("init"); initFn != nil {
			fnsToScan = append(fnsToScan, initFn)
		}
	}
	scanned := map[*ssa.Function]bool{}
	for _, fn := range fnsToScan {
		if scanned[fn] {
			continue
		}
		scanned[fn] = true
		for _, b := range fn.Blocks {
			for _, in := range b.Instrs {
				st, ok := in.(*ssa.Store)
				if !ok || (st.Addr != ssa.Value(g) && addrRoot(st.Addr) != ssa.Value(g)) {
					continue
				}
				if fn.Name() != "init" {
					return nil, false // written outside the initialiser
				}
				// built in place: staticTable[k].f = const
				if fa, isFA := st.Addr.(*ssa.FieldAddr); isFA {
					if ia, isIA := fa.X.(*ssa.IndexAddr); isIA && ia.X == ssa.Value(g) {
						k, isK := constInt(ia.Index)
						cv, isC := st.Val.(*ssa.Const)
						if !isK || !isC {
							return nil, false
						}
						record(k, fa.Field, cv)
						inPlace = true
						continue
					}
				}
				if st.Addr == ssa.Value(g) {
					// the whole table assigned from a local literal
					ld, ok := st.Val.(*ssa.UnOp)
					if !ok {
						return nil, false
					}
					arr, ok := ld.X.(*ssa.Alloc)
					if !ok || !elementsOfArrayLit(arr) {
						return nil, false
					}
					nWhole++
				}
			}
		}
	}
	if !(nWhole == 1 && !inPlace) && !(nWhole == 0 && inPlace) {
		return nil, false
	}
	if len(keys) == 0 || len(keys) != len(vals) {
		return nil, false
	}
	t := &dtable{fn: dec}
	var negs []atom
	var idx []int64
	for k := range keys {
		idx = append(idx, k)
	}
	sort.Slice(idx, func(i, j int) bool { return idx[i] < idx[j] })
	seen := map[string]bool{}
	for _, k := range idx {
		kk := constKey(keys[k])
		if seen[kk] {
			continue // a later duplicate key is never reached
		}
		seen[kk] = true
		conds := append(append([]atom{}, negs...), atom{subj: param.Name(), op: "==", konst: kk})
		t.rows = append(t.rows, trow{conds: conds, results: []string{"const:" + constKey(vals[k])}, vals: []ssa.Value{vals[k]}})
		negs = append(negs, atom{subj: param.Name(), op: "==", konst: kk, neg: true})
	}
	t.rows = append(t.rows, trow{conds: negs, results: []string{"const:" + constKey(def)}, vals: []ssa.Value{def}})
	return t, true
}
