package main

import "golang.org/x/tools/go/ssa"

// c05Engine builds the E1 engine for the C05 scope with the entry-point contracts of DESIGN 2.5.
func c05Engine(c *Ctx) (*nilEngine, []*ssa.Function) {
	roots := c.allEntryRoots()
	scope, _ := c.scope(roots, scopeOpts{})
	// contract roots: the API entry points. Extension methods are reached through dispatch from
	// ParseRealtime and take their parameter facts from that call site.
	ext := map[*ssa.Function]bool{}
	for _, f := range c.extensionMethods() {
		ext[f] = true
	}
	var croots []*ssa.Function
	for _, r := range roots {
		if !ext[r] {
			croots = append(croots, r)
		}
	}
	e := newNilEngine(c, scope, croots)
	contract := func(spec string, params ...int) {
		f := c.P.Func(spec)
		if f == nil {
			return
		}
		for _, i := range params {
			if i < len(f.Params) {
				e.entryNN[f.Params[i]] = true
			}
		}
	}
	contract("gtfs:ParseStatic", 0)
	contract("gtfs:ParseRealtime", 0, 1) // callers pass non-nil options
	contract("gtfs:(*Trip).Hash", 0, 1)
	contract("gtfs:(*Vehicle).Hash", 0, 1)
	contract("gtfs:(*Stop).Root", 0)
	contract("journal:BuildJournal", 0)
	contract("journal:(*DirectoryGtfsrtSource).Next", 0)
	contract("journal:(*Journal).ExportToCsv", 0)
	// the nil-safe getters and the template helpers are analysed with may-nil arguments
	e.solve()
	return e, scope
}

func init() {
	register(&PropSpec{
		ID: "C05",
		Explain: "Decides, for every module function reachable from ParseStatic, ParseRealtime (all bundled extensions as dispatch targets, both edges of every option test), Trip.Hash, Vehicle.Hash, Stop.Root, the nil-safe getters, BuildJournal, the directory source, ExportToCsv and the template helpers: " +
			"(G1) every pointer dereference, field address, interface invoke, function-value call, nil-map write and pointer receiver handed to a library method is of a value that is non-nil on every path (E1: forward must-facts from nil tests, comma-ok lookups, allocations, stores, struct copies, phi translation; interprocedural parameter/return/err-pairing/predicate summaries; proto2 required/repeated/extension lemmas; map-value and struct-field invariants); " +
			"(G2) every index and slice expression is in bounds and every integer division has a non-zero constant divisor; (G3) every plain type assertion is justified by the HasExtension lemma and every panic by a named rule; " +
			"(G4) every loop has a static variant (range, bounded counter, input-consuming driver, consumer, or pointer chase along a field that every writer keeps acyclic); (G5) no recursion; the csv row accessors are used only inside the NextRow loop after the missing-column check (typestate), init-time regexps and templates are valid. " +
			"Reviewed exceptions (listed in the evidence, not covered by the claim) are invariant-based accesses the provers cannot reach. Not decided: panics inside the libraries; resource exhaustion.",
		Assumptions: []string{
			"entry-point contracts: callers pass non-nil options to ParseRealtime, a non-nil hash.Hash, and call Hash/Root/Next/ExportToCsv/BuildJournal with non-nil receivers/arguments",
			"proto.Unmarshal returning nil guarantees proto2 required fields are set and repeated message elements are non-nil; proto.HasExtension(m, X) == true guarantees m non-nil and GetExtension(m, X) of X's declared Go type, non-nil",
			"pointer-like results of library calls are non-nil when the paired error is nil (or there is no error result), except regexp Find* and proto.GetExtension",
			"encoding/csv with FieldsPerRecord == 0 returns records with as many fields as the first record A String / Error method does not hand a value of its own type to a fmt / log formatter with a verb that calls the method again (recursion through the library, invisible in the module's call graph). A map kept in a struct field and assigned into is made in every construction of the struct, in a block that dominates the constructor's returns.",
		},
		Rules: []Rule{
			{Name: "G13", Doc: "the pointers the parent chase follows (Stop.Parent) address elements of the final stops list and that list is not compacted or re-allocated after they were taken: the acyclicity the G4 chase lemma relies on is that of the linked objects, not of stale slots", MinInstances: 8, Run: runRefRules},
			{Name: "G1", Doc: "no nil dereference (E1)", MinInstances: 70, Run: func(c *Ctx) {
				e, scope := c05Engine(c)
				runG1(c, e)
				runCsvContract(c, scope)
				runG2(c, e)
				runG4(c, e)
				runG5(c, e)
				runInitConstants(c)
				runUnmarshalDiscipline(c)
				runFieldMapsMade(c, scope, "G1")
			}},
		},
	})
}
