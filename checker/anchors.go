package main

import (
	"fmt"
	"go/types"
	"sort"
	"strings"

	"golang.org/x/tools/go/ssa"
)

// Anchors: symbolic names for the functions the properties are about. An
// anchor that no longer resolves fails the check (UNRESOLVED ANCHOR).

var parseEntrySpecs = []string{"gtfs:ParseStatic", "gtfs:ParseRealtime"}

var accessorSpecs = []string{
	"gtfs:(*Trip).Hash", "gtfs:(*Vehicle).Hash", "gtfs:(*Stop).Root",
	"gtfs:(*Trip).GetVehicle", "gtfs:(*StopTimeUpdate).GetArrival", "gtfs:(*StopTimeUpdate).GetDeparture",
	"gtfs:(*Vehicle).GetID", "gtfs:(*Vehicle).GetTrip",
}

var journalSpecs = []string{
	"journal:BuildJournal", "journal:(*DirectoryGtfsrtSource).Next", "journal:NewDirectoryGtfsrtSource", "journal:(*Journal).ExportToCsv",
}

var extensionCtorSpecs = []string{"nycttrips:Extension", "nyctalerts:Extension", "extensions:NoExtension"}

func (c *Ctx) anchor(spec string) *ssa.Function {
	f := c.P.Func(spec)
	if f == nil {
		c.Undecided("ANCHOR", spec, "resolve", "-", "UNRESOLVED ANCHOR "+spec+": the function this rule is about no longer exists under that name; the property can no longer be vouched for")
	}
	return f
}

func (c *Ctx) anchors(specs ...string) []*ssa.Function {
	var out []*ssa.Function
	for _, s := range specs {
		if f := c.anchor(s); f != nil {
			out = append(out, f)
		}
	}
	return out
}

// funcMapClosures returns the function literals stored in journal.funcMap
// (invoked by text/template through reflection, invisible to the call graph).
func (c *Ctx) funcMapClosures() []*ssa.Function {
	sp := c.P.SSAPkg[pkgPathOf("journal")]
	if sp == nil {
		return nil
	}
	init := sp.Func("init")
	var out []*ssa.Function
	if init != nil {
		out = append(out, init.AnonFuncs...)
	}
	return out
}

// extensionImpls returns the methods of every module type implementing extensions.Extension.
func (c *Ctx) extensionMethods() []*ssa.Function {
	var out []*ssa.Function
	for _, fn := range c.P.ModFns {
		if fn.Signature.Recv() == nil {
			continue
		}
		switch fn.Name() {
		case "UpdateTrip", "UpdateVehicle", "UpdateAlert", "GetTrack":
			pk := fnPkgPath(fn)
			if _, isPtr := fn.Signature.Recv().Type().(*types.Pointer); isPtr {
				continue // pointer-receiver wrappers of value methods: the extension values are structs
			}
			if strings.HasPrefix(pk, modPath+"/extensions") {
				out = append(out, fn)
			}
		}
	}
	return out
}

// scope computes the module functions reachable from the given roots,
// restricted to in-scope packages (generated protobuf code, cmd, performance
// and test utilities are excluded unless asked for).
type scopeOpts struct {
	includeProto bool
	includeCmd   bool
}

func (c *Ctx) scope(roots []*ssa.Function, o scopeOpts) ([]*ssa.Function, map[*ssa.Function][]*ssa.Function) {
	reach := c.P.Reachable(roots...)
	var fns []*ssa.Function
	for fn := range reach {
		if !c.P.fnIndex[fn] {
			continue
		}
		pk := fnPkgPath(fn)
		if isProtoPkg(pk) && !o.includeProto {
			continue
		}
		if (strings.HasSuffix(pk, "/cmd") || strings.HasSuffix(pk, "/performance") || strings.Contains(pk, "/internal/")) && !o.includeCmd {
			continue
		}
		if fn.Name() == "init" && fn.Parent() == nil && fn.Signature.Recv() == nil {
			continue
		}
		fns = append(fns, fn)
	}
	sort.Slice(fns, func(i, j int) bool { return fns[i].String() < fns[j].String() })
	return fns, reach
}

func (c *Ctx) allParseRoots() []*ssa.Function {
	roots := c.anchors(parseEntrySpecs...)
	roots = append(roots, c.extensionMethods()...)
	return roots
}

func (c *Ctx) allEntryRoots() []*ssa.Function {
	roots := c.allParseRoots()
	roots = append(roots, c.anchors(accessorSpecs...)...)
	roots = append(roots, c.anchors(journalSpecs...)...)
	roots = append(roots, c.anchors(extensionCtorSpecs...)...)
	roots = append(roots, c.funcMapClosures()...)
	return roots
}

func fnList(fns []*ssa.Function) string {
	var s []string
	for _, f := range fns {
		s = append(s, shortName(f))
	}
	return fmt.Sprintf("%d: %s", len(fns), strings.Join(s, ", "))
}
