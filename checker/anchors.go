package main

import (
	"fmt"
	"go/types"
	"sort"
	"strings"

	"golang.org/x/tools/go/ssa"
)

// Anchors: symbolic names for the functions the properties are about. An
// anchor that no longer resolves fails the check (UNRESOLVED ANCHOR).

var parseEntrySpecs = []string{"gtfs:ParseStatic", "gtfs:ParseRealtime"}

var accessorSpecs = []string{
	"gtfs:(*Trip).Hash", "gtfs:(*Vehicle).Hash", "gtfs:(*Stop).Root",
	"gtfs:(*Trip).GetVehicle", "gtfs:(*StopTimeUpdate).GetArrival", "gtfs:(*StopTimeUpdate).GetDeparture",
	"gtfs:(*Vehicle).GetID", "gtfs:(*Vehicle).GetTrip",
}

var journalSpecs = []string{
	"journal:BuildJournal", "journal:(*DirectoryGtfsrtSource).Next", "journal:NewDirectoryGtfsrtSource", "journal:(*Journal).ExportToCsv",
}

var extensionCtorSpecs = []string{"nycttrips:Extension", "nyctalerts:Extension", "extensions:NoExtension"}

// anchorShape: how an unexported anchor is recognised when no function of that name exists any more (it was renamed):
// by what it converts (signature class) and, where the class is shared, by a CSV column it reads. A function found
// this way must be the only candidate in its package.
type anchorShape struct {
	class string
	reads string
}

// anchorAltShapes: variants of an anchor's shape that the rules know how to read (the rule says what differs).
var anchorAltShapes = map[string][]string{
	// the is_assigned test moved to the caller: the rule then demands the "not assigned" guard at the call
	"nycttrips:isStaleUnassignedTrip": {"([]*proto.TripUpdate_StopTimeUpdate,uint64)→(bool)"},
}

var anchorShapes = map[string]anchorShape{
	"gtfs:mergeTrip":                                  {"(*gtfs.Trip,gtfs.Trip)→()", ""},
	"gtfs:mergeVehicle":                               {"(*gtfs.Vehicle,gtfs.Vehicle)→()", ""},
	"gtfs:parseTripUpdate":                            {"(*proto.TripUpdate)→(*gtfs.Trip,*gtfs.Vehicle,bool)", ""},
	"gtfs:parseVehicle":                               {"(*proto.VehiclePosition)→(*gtfs.Trip,*gtfs.Vehicle)", ""},
	"gtfs:parseAlert":                                 {"(string,*proto.Alert)→(*gtfs.Alert,[]gtfs.Trip)", ""},
	"gtfs:parseScheduledStopTimes":                    {"(*csv.File,[]gtfs.Stop,[]gtfs.ScheduledTrip)→()", "stop_sequence"},
	"gtfs:parseGtfsTimeToDuration":                    {"(string)→(time.Duration,bool)", ""},
	"gtfs:parseStops":                                 {"(*csv.File,bool)→([]gtfs.Stop)", "stop_id"},
	"gtfs:parseStartTime":                             {"(*string)→(bool,time.Duration)", ""},
	"gtfs:parseStartDate":                             {"(*string)→(bool,time.Time)", ""},
	"gtfs:parseShapes":                                {"(*csv.File)→([]gtfs.Shape)", "shape_pt_lat"},
	"gtfs:parseDirectionID_GTFSStatic":                {"(string)→(gtfs.DirectionID)", ""},
	"gtfs:parseDirectionID_GTFSRealtime":              {"(*uint32)→(gtfs.DirectionID)", ""},
	"gtfs:parseCalendar":                              {"(*csv.File,map[string]gtfs.Service)→()", "start_date"},
	"gtfs:parseCalendarDates":                         {"(*csv.File,map[string]gtfs.Service)→()", "exception_type"},
	"gtfs:parseTime":                                  {"(string)→(time.Time,error)", ""},
	"gtfs:tripIDUniquelyIdentifiesTrip":               {"(*gtfs.TripID)→(bool)", ""},
	"gtfs:alertInformedEntityInformsAtLeastOneEntity": {"(gtfs.AlertInformedEntity)→(bool)", ""},
	"gtfs:(*ParseRealtimeOptions).timezoneOrUTC":      {"()→(*time.Location)", ""},
	"gtfs:convertOptionalTimestamp":                   {"(*uint64)→(*time.Time)", ""},
	"gtfs:parseOptionalTripDescriptor":                {"(*proto.TripDescriptor)→(*gtfs.TripID)", ""},
	"gtfs:convertVehiclePosition":                     {"(*proto.VehiclePosition)→(*gtfs.Position)", ""},
	"gtfs:parseVehicleDescriptor":                     {"(*proto.VehicleDescriptor)→(*gtfs.VehicleID)", ""},
	"journal:createPartition":                         {"([]journal.StopTime,[]gtfs.StopTimeUpdate)→(journal._)", ""},
	"journal:buildTripUID":                            {"(time.Time,string)→(string)", ""},
	"journal:(*Trip).update":                          {"(*journal.Trip,*gtfs.Trip,time.Time)→()", ""},
	"journal:(*Trip).markPast":                        {"(*journal.Trip,time.Time)→()", ""},
	"journal:(*StopTime).update":                      {"(*journal.StopTime,*gtfs.StopTimeUpdate,time.Time)→()", ""},
	"journal:(*StopTime).markPast":                    {"(*journal.StopTime,time.Time)→()", ""},
	"nycttrips:isStaleUnassignedTrip":                 {"(bool,[]*proto.TripUpdate_StopTimeUpdate,uint64)→(bool)", ""},
	"nycttrips:fixMTrainPlatformsInBushwick":          {"(*proto.TripUpdate)→()", ""},
	"nycttrips:(extension).updateTripOrVehicle":       {"(nycttrips._,nycttrips._)→(bool)", ""},
	"nyctalerts:getPriorityFromInformedEntity":        {"(*proto.EntitySelector)→(proto.MercuryEntitySelector_Priority,bool)", ""},
	"nyctalerts:buildMetadata":                        {"(*proto.Alert)→(string,bool)", ""},
	"nyctalerts:(extension).updateElevatorAlert":      {"(nyctalerts._,*string,*proto.Alert)→(bool)", ""},
}

// resolveByShape: the unique unexported, named function of the anchor's package with the anchor's shape.
func (c *Ctx) resolveByShape(spec string) *ssa.Function {
	sh, ok := anchorShapes[spec]
	if !ok {
		return nil
	}
	path := pkgPathOf(spec[:strings.Index(spec, ":")])
	taken := map[*ssa.Function]bool{}
	for other := range anchorShapes {
		if other != spec {
			if f := c.P.Func(other); f != nil {
				taken[f] = true
			}
		}
	}
	// first the exact shape, then the shape up to the convention for "no value" (nil pointer, flag before or after the
	// value, error), then a listed variant of the shape (a parameter whose test moved to the caller)
	classes := append([]string{sh.class, sh.class}, anchorAltShapes[spec]...)
	for ci, class := range classes {
		norm := ci == 1
		sh := anchorShape{class: class, reads: sh.reads}
		var cands []*ssa.Function
		for _, fn := range c.P.ModFns {
			if fnPkgPath(fn) != path || fn.Parent() != nil || fn.Synthetic != "" || taken[fn] {
				continue
			}
			if cls := sigClass(fn); (!norm && cls != sh.class) || (norm && normClass(cls) != normClass(sh.class)) {
				continue
			}
			if obj := fn.Object(); obj == nil || obj.Exported() {
				continue
			}
			if sh.reads != "" && !readsColumn(fn, sh.reads) {
				continue
			}
			cands = append(cands, fn)
		}
		if len(cands) == 1 {
			return cands[0]
		}
		if len(cands) > 1 {
			return nil
		}
	}
	return nil
}

// resolveByBareName: the function was turned into a method (or a method into a function, or moved to another receiver):
// the unique function or method of the anchor's package that still has the anchor's bare name.
func (c *Ctx) resolveByBareName(spec string) *ssa.Function {
	i := strings.Index(spec, ":")
	path := pkgPathOf(spec[:i])
	name := spec[i+1:]
	if j := strings.LastIndex(name, ")."); j >= 0 {
		name = name[j+2:]
	}
	var cands []*ssa.Function
	for _, fn := range c.P.ModFns {
		if fnPkgPath(fn) != path || fn.Parent() != nil || fn.Synthetic != "" || fn.Name() != name {
			continue
		}
		if obj := fn.Object(); obj == nil || obj.Exported() {
			continue
		}
		// of a value method and its pointer wrapper only the declared one is not synthetic; instantiations excluded
		if len(fn.TypeArgs()) > 0 {
			continue
		}
		cands = append(cands, fn)
	}
	if len(cands) == 1 {
		return cands[0]
	}
	return nil
}

// resolveByColumn: a static parse function whose name and signature both changed is still the one function of its
// package that asks for its file's own column.
func (c *Ctx) resolveByColumn(spec string) *ssa.Function {
	sh, ok := anchorShapes[spec]
	if !ok || sh.reads == "" {
		return nil
	}
	path := pkgPathOf(spec[:strings.Index(spec, ":")])
	var cands []*ssa.Function
	for _, fn := range c.P.ModFns {
		if fnPkgPath(fn) == path && fn.Parent() == nil && fn.Synthetic == "" && readsColumn(fn, sh.reads) {
			cands = append(cands, fn)
		}
	}
	if len(cands) == 1 {
		return cands[0]
	}
	return nil
}

// readsColumn: fn asks its csv.File for the named column.
func readsColumn(fn *ssa.Function, col string) bool {
	for _, b := range fn.Blocks {
		for _, in := range b.Instrs {
			if call, ok := in.(*ssa.Call); ok {
				n := calleeName(call)
				if strings.HasSuffix(n, "csv.File).RequiredColumn") || strings.HasSuffix(n, "csv.File).OptionalColumn") {
					if s, ok := constString(call.Call.Args[len(call.Call.Args)-1]); ok && s == col {
						return true
					}
				}
			}
		}
	}
	return false
}

func (c *Ctx) anchor(spec string) *ssa.Function {
	if f, ok := c.anchorMemo[spec]; ok {
		return f
	}
	f := c.P.Func(spec)
	if f == nil {
		f = c.resolveByBareName(spec)
	}
	if f == nil {
		f = c.resolveByShape(spec)
	}
	if f == nil {
		f = c.resolveByColumn(spec)
	}
	if c.anchorMemo == nil {
		c.anchorMemo = map[string]*ssa.Function{}
	}
	c.anchorMemo[spec] = f
	if f == nil {
		c.Undecided("ANCHOR", spec, "resolve", "-", "UNRESOLVED ANCHOR "+spec+": the function this rule is about no longer exists under that name; the property can no longer be vouched for")
	}
	return f
}

func (c *Ctx) anchors(specs ...string) []*ssa.Function {
	var out []*ssa.Function
	for _, s := range specs {
		if f := c.anchor(s); f != nil {
			out = append(out, f)
		}
	}
	return out
}

// funcMapClosures returns the function literals stored in journal.funcMap
// (invoked by text/template through reflection, invisible to the call graph).
func (c *Ctx) funcMapClosures() []*ssa.Function {
	sp := c.P.SSAPkg[pkgPathOf("journal")]
	if sp == nil {
		return nil
	}
	init := sp.Func("init")
	if init == nil {
		return nil
	}
	// every function value put into a text/template FuncMap by the package initialiser: function literals and named
	// functions alike
	seen := map[*ssa.Function]bool{}
	var out []*ssa.Function
	add := func(v ssa.Value) {
		for i := 0; i < 4 && v != nil; i++ {
			switch x := v.(type) {
			case *ssa.MakeInterface:
				v = x.X
				continue
			case *ssa.MakeClosure:
				v = x.Fn
				continue
			case *ssa.ChangeType:
				v = x.X
				continue
			case *ssa.Function:
				if !seen[x] && len(x.Blocks) > 0 {
					seen[x] = true
					out = append(out, x)
				}
			}
			return
		}
	}
	for _, b := range init.Blocks {
		for _, in := range b.Instrs {
			if mu, ok := in.(*ssa.MapUpdate); ok && strings.HasSuffix(mu.Map.Type().String(), "template.FuncMap") {
				add(mu.Value)
			}
		}
	}
	if len(out) == 0 {
		out = append(out, init.AnonFuncs...)
	}
	return out
}

// extensionImpls returns the methods of every module type implementing extensions.Extension.
func (c *Ctx) extensionMethods() []*ssa.Function {
	var out []*ssa.Function
	for _, fn := range c.P.ModFns {
		if fn.Signature.Recv() == nil {
			continue
		}
		switch fn.Name() {
		case "UpdateTrip", "UpdateVehicle", "UpdateAlert", "GetTrack":
			pk := fnPkgPath(fn)
			if _, isPtr := fn.Signature.Recv().Type().(*types.Pointer); isPtr {
				continue // pointer-receiver wrappers of value methods: the extension values are structs
			}
			if strings.HasPrefix(pk, modPath+"/extensions") {
				out = append(out, fn)
			}
		}
	}
	return out
}

// scope computes the module functions reachable from the given roots,
// restricted to in-scope packages (generated protobuf code, cmd, performance
// and test utilities are excluded unless asked for).
type scopeOpts struct {
	includeProto bool
	includeCmd   bool
}

func (c *Ctx) scope(roots []*ssa.Function, o scopeOpts) ([]*ssa.Function, map[*ssa.Function][]*ssa.Function) {
	reach := c.P.Reachable(roots...)
	var fns []*ssa.Function
	for fn := range reach {
		if !c.P.fnIndex[fn] {
			continue
		}
		pk := fnPkgPath(fn)
		if isProtoPkg(pk) && !o.includeProto {
			continue
		}
		if (strings.HasSuffix(pk, "/cmd") || strings.HasSuffix(pk, "/performance") || strings.Contains(pk, "/internal/")) && !o.includeCmd {
			continue
		}
		if fn.Name() == "init" && fn.Parent() == nil && fn.Signature.Recv() == nil {
			continue
		}
		fns = append(fns, fn)
	}
	sort.Slice(fns, func(i, j int) bool { return fns[i].String() < fns[j].String() })
	return fns, reach
}

func (c *Ctx) allParseRoots() []*ssa.Function {
	roots := c.anchors(parseEntrySpecs...)
	roots = append(roots, c.extensionMethods()...)
	return roots
}

func (c *Ctx) allEntryRoots() []*ssa.Function {
	roots := c.allParseRoots()
	roots = append(roots, c.anchors(accessorSpecs...)...)
	roots = append(roots, c.anchors(journalSpecs...)...)
	roots = append(roots, c.anchors(extensionCtorSpecs...)...)
	roots = append(roots, c.funcMapClosures()...)
	return roots
}

func fnList(fns []*ssa.Function) string {
	var s []string
	for _, f := range fns {
		s = append(s, shortName(f))
	}
	return fmt.Sprintf("%d: %s", len(fns), strings.Join(s, ", "))
}
