package main

// E3: binding extraction. A backward provenance slice from a stored value to its named
// sources (CSV column reads, proto field loads, constants), rendered as an expression.

import (
	"fmt"
	"go/token"
	"go/types"
	"regexp"
	"sort"
	"strings"

	"golang.org/x/tools/go/ssa"
)

type binder struct {
	c    *Ctx
	memo map[ssa.Value]string
	busy map[ssa.Value]bool
	// carrier struct types whose fields are looked through (field-based): values stored into T.f
	carriers map[string]bool
	fieldSrc map[string][]ssa.Value // "Type.field" -> values stored (for carriers)
}

func newBinder(c *Ctx, carriers ...string) *binder {
	b := &binder{c: c, memo: map[ssa.Value]string{}, busy: map[ssa.Value]bool{}, carriers: map[string]bool{}, fieldSrc: map[string][]ssa.Value{}}
	for _, k := range carriers {
		b.carriers[k] = true
	}
	if len(carriers) > 0 {
		for _, fn := range c.P.ModFns {
			for _, blk := range fn.Blocks {
				for _, in := range blk.Instrs {
					if st, ok := in.(*ssa.Store); ok {
						if fa, ok := st.Addr.(*ssa.FieldAddr); ok && b.carriers[typeName(fa.X.Type())] {
							k := typeName(fa.X.Type()) + "." + fieldName(fa.X.Type(), fa.Field)
							b.fieldSrc[k] = append(b.fieldSrc[k], st.Val)
						}
					}
				}
			}
		}
	}
	return b
}

func alts(xs []string) string {
	m := map[string]bool{}
	for _, x := range xs {
		m[x] = true
	}
	var u []string
	for x := range m {
		u = append(u, x)
	}
	sort.Strings(u)
	if len(u) == 1 {
		return u[0]
	}
	return "phi(" + strings.Join(u, "|") + ")"
}

func (b *binder) bind(v ssa.Value) string { return b.bindD(v, 0) }

func (b *binder) bindD(v ssa.Value, d int) string {
	if v == nil {
		return "nil"
	}
	if s, ok := b.memo[v]; ok {
		return s
	}
	if d > 25 || b.busy[v] {
		return "…"
	}
	b.busy[v] = true
	s := b.bind1(v, d)
	delete(b.busy, v)
	b.memo[v] = s
	return s
}

func protoFieldLeaf(t types.Type, field string) string {
	n := namedOf(t)
	if n == nil {
		return "proto:?." + field
	}
	return "proto:" + n.Obj().Name() + "." + field
}

func (b *binder) bind1(v ssa.Value, d int) string {
	switch x := v.(type) {
	case *ssa.Const:
		if x.Value == nil {
			return "const:nil"
		}
		return "const:" + constKey(x)
	case *ssa.Parameter:
		return "param:" + x.Name()
	case *ssa.FreeVar:
		// captured variable: what the enclosing function stored into the cell
		fn := x.Parent()
		idx := freeVarIndex(fn, x)
		if par := fn.Parent(); par != nil {
			for _, blk := range par.Blocks {
				for _, in := range blk.Instrs {
					if mc, ok := in.(*ssa.MakeClosure); ok && mc.Fn == ssa.Value(fn) {
						return "cell(" + b.bindD(mc.Bindings[idx], d+1) + ")"
					}
				}
			}
		}
		return "captured:" + x.Name()
	case *ssa.Global:
		return "global:" + x.Name()
	case *ssa.Function:
		return "func:" + x.Name()
	case *ssa.MakeInterface:
		return b.bindD(x.X, d+1)
	case *ssa.ChangeType:
		return b.bindD(x.X, d+1)
	case *ssa.ChangeInterface:
		return b.bindD(x.X, d+1)
	case *ssa.Convert:
		return "conv(" + b.bindD(x.X, d+1) + ")"
	case *ssa.BinOp:
		return "(" + b.bindD(x.X, d+1) + " " + x.Op.String() + " " + b.bindD(x.Y, d+1) + ")"
	case *ssa.Phi:
		var as []string
		for _, e := range x.Edges {
			as = append(as, b.bindD(e, d+1))
		}
		return alts(as)
	case *ssa.Extract:
		// key / value of a range over a local map: what was put into the map
		if nx, ok := x.Tuple.(*ssa.Next); ok {
			if rng, ok := nx.Iter.(*ssa.Range); ok {
				if _, isMap := rng.X.Type().Underlying().(*types.Map); isMap && (x.Index == 1 || x.Index == 2) {
					if s := b.mapSide(rng.X, x.Index == 1, d); s != "" {
						return s
					}
				}
			}
		}
		return b.bindD(x.Tuple, d+1) + "#" + fmt.Sprint(x.Index)
	case *ssa.Lookup:
		if _, isMap := x.X.Type().Underlying().(*types.Map); isMap {
			if vals := b.mapSide(x.X, false, d); vals != "" {
				return "lookup(" + describeMapExpr(x.X) + "," + b.bindD(x.Index, d+1) + ")=>" + vals
			}
		}
		return "lookup(" + describeMapExpr(x.X) + "," + b.bindD(x.Index, d+1) + ")"
	case *ssa.TypeAssert:
		return b.bindD(x.X, d+1)
	case *ssa.Slice:
		// a literal / variadic array: list its elements
		if arr := isLocalArrayAlloc(x.X); arr != nil {
			elems := map[int64][]string{}
			var idxs []int64
			for _, r := range *arr.Referrers() {
				if ia, ok := r.(*ssa.IndexAddr); ok {
					if k, ok := constInt(ia.Index); ok {
						for _, r2 := range *ia.Referrers() {
							if st, ok := r2.(*ssa.Store); ok && st.Addr == ssa.Value(ia) {
								if _, seen := elems[k]; !seen {
									idxs = append(idxs, k)
								}
								elems[k] = append(elems[k], b.bindD(st.Val, d+1))
							}
						}
					}
				}
			}
			if len(idxs) > 0 {
				sort.Slice(idxs, func(i, j int) bool { return idxs[i] < idxs[j] })
				var parts []string
				for _, k := range idxs {
					parts = append(parts, alts(elems[k]))
				}
				return "[" + strings.Join(parts, ", ") + "]"
			}
		}
		if x.Low != nil || x.High != nil {
			lo, hi := "", ""
			if x.Low != nil {
				lo = b.bindD(x.Low, d+1)
			}
			if x.High != nil {
				hi = b.bindD(x.High, d+1)
			}
			return "slice(" + b.bindD(x.X, d+1) + "," + lo + ":" + hi + ")"
		}
		return "slice(" + b.bindD(x.X, d+1) + ")"
	case *ssa.MakeClosure:
		return "closure:" + x.Fn.Name()
	case *ssa.Alloc:
		// address of a local: what is stored there
		var as []string
		for _, sv := range cellStores(x) {
			as = append(as, b.bindD(sv, d+1))
		}
		if len(as) == 0 {
			return "&new(" + typeName(deref(x.Type())) + ")"
		}
		return "&(" + alts(as) + ")"
	case *ssa.FieldAddr:
		return "&" + b.fieldRef(x.X, x.Field, d)
	case *ssa.Field:
		return b.bindD(x.X, d+1) + "." + fieldName(x.X.Type(), x.Field)
	case *ssa.IndexAddr:
		return "&" + b.bindD(x.X, d+1) + "[" + b.bindD(x.Index, d+1) + "]"
	case *ssa.Index:
		return b.bindD(x.X, d+1) + "[" + b.bindD(x.Index, d+1) + "]"
	case *ssa.UnOp:
		if x.Op != token.MUL {
			return x.Op.String() + "(" + b.bindD(x.X, d+1) + ")"
		}
		switch a := x.X.(type) {
		case *ssa.FieldAddr:
			return b.fieldRef(a.X, a.Field, d)
		case *ssa.Alloc:
			var as []string
			for _, sv := range cellStores(a) {
				as = append(as, b.bindD(sv, d+1))
			}
			if len(as) == 0 {
				return "zero(" + typeName(deref(a.Type())) + ")"
			}
			return alts(as)
		case *ssa.IndexAddr:
			// element of a local literal array: what was stored at that index (or any index)
			if arr := isLocalArrayAlloc(a.X); arr != nil {
				var as []string
				k, isC := constInt(a.Index)
				for _, r := range *arr.Referrers() {
					if ia, ok := r.(*ssa.IndexAddr); ok {
						if kk, ok := constInt(ia.Index); ok && isC && kk != k {
							continue
						}
						for _, r2 := range *ia.Referrers() {
							if st, ok := r2.(*ssa.Store); ok && st.Addr == ssa.Value(ia) {
								as = append(as, b.bindD(st.Val, d+1))
							}
						}
					}
				}
				if len(as) > 0 {
					return alts(as)
				}
			}
			return b.bindD(a.X, d+1) + "[" + b.bindD(a.Index, d+1) + "]"
		case *ssa.Global:
			return "global:" + a.Name()
		case *ssa.FreeVar:
			return b.bindD(a, d+1)
		}
		return "deref(" + b.bindD(x.X, d+1) + ")"
	case *ssa.Call:
		return b.bindCall(x, d)
	case *ssa.Next:
		return "next(" + b.bindD(x.Iter, d+1) + ")"
	case *ssa.Range:
		return "range(" + describeMapExpr(x.X) + ")"
	case *ssa.MakeMap:
		return "map:" + describeMapExpr(x)
	case *ssa.MakeSlice:
		return "make"
	}
	return fmt.Sprintf("?%T", v)
}

// cellStores: every value stored into a local variable cell, in its function and in the closures that capture it.
func cellStores(a *ssa.Alloc) []ssa.Value {
	var out []ssa.Value
	seen := map[ssa.Value]bool{}
	var visit func(cell ssa.Value, d int)
	visit = func(cell ssa.Value, d int) {
		if seen[cell] || d > 4 || cell.Referrers() == nil {
			return
		}
		seen[cell] = true
		for _, r := range *cell.Referrers() {
			switch x := r.(type) {
			case *ssa.Store:
				if x.Addr == cell {
					out = append(out, x.Val)
				}
			case *ssa.MakeClosure:
				cl := x.Fn.(*ssa.Function)
				for i, bnd := range x.Bindings {
					if bnd == cell {
						visit(cl.FreeVars[i], d+1)
					}
				}
			}
		}
	}
	visit(a, 0)
	return out
}

// mapSide: the bindings of all keys (or values) ever stored into map m (same SSA value; parameters are followed to
// the call sites' arguments when they are local maps there).
func (b *binder) mapSide(m ssa.Value, keys bool, d int) string {
	var as []string
	origins := b.c.P.valueOrigins(m)
	for _, fn := range b.c.P.ModFns {
		for _, blk := range fn.Blocks {
			for _, in := range blk.Instrs {
				mu, ok := in.(*ssa.MapUpdate)
				if !ok || !types.Identical(mu.Map.Type(), m.Type()) {
					continue
				}
				if mu.Map != m {
					o2 := b.c.P.valueOrigins(mu.Map)
					if !o2.intersects(origins) {
						continue
					}
				}
				if keys {
					as = append(as, b.bindD(mu.Key, d+1))
				} else {
					as = append(as, b.bindD(mu.Value, d+1))
				}
			}
		}
	}
	if len(as) == 0 {
		return ""
	}
	return alts(as)
}

// fieldRef renders the value of field `field` of the struct denoted by base (a pointer or address).
func (b *binder) fieldRef(base ssa.Value, field int, d int) string {
	t := base.Type()
	fname := fieldName(t, field)
	tn := typeName(t)
	n := namedOf(t)
	if n != nil && n.Obj().Pkg() != nil && isProtoPkg(n.Obj().Pkg().Path()) {
		return protoFieldLeaf(t, fname)
	}
	if b.carriers[tn] {
		var as []string
		for _, v := range b.fieldSrc[tn+"."+fname] {
			as = append(as, b.bindD(v, d+1))
		}
		if len(as) > 0 {
			return alts(as)
		}
	}
	bs := b.bindD(base, d+1)
	switch base.(type) {
	case *ssa.FieldAddr, *ssa.IndexAddr:
		bs = strings.TrimPrefix(bs, "&") // the address of the enclosing object: select the field of the object itself
	}
	return bs + "." + fname
}

func (b *binder) bindCall(x *ssa.Call, d int) string {
	cc := x.Common()
	if bi, ok := cc.Value.(*ssa.Builtin); ok {
		var as []string
		for _, a := range cc.Args {
			as = append(as, b.bindD(a, d+1))
		}
		return bi.Name() + "(" + strings.Join(as, ",") + ")"
	}
	name := calleeName(x)
	switch name {
	case "(" + modPath + "/csv.OptionalColumn).Read", "(" + modPath + "/csv.RequiredColumn).Read":
		if ci, _ := resolveColumn(cc.Args[0], 0); ci != nil {
			return "col:" + ci.name
		}
		return "col:?"
	case "(" + modPath + "/csv.OptionalColumn).ReadOr":
		if ci, _ := resolveColumn(cc.Args[0], 0); ci != nil {
			return "col:" + ci.name + "|d"
		}
		return "col:?"
	}
	if cc.IsInvoke() {
		var as []string
		for _, a := range cc.Args {
			as = append(as, b.bindD(a, d+1))
		}
		return cc.Method.Name() + "(" + strings.Join(append([]string{b.bindD(cc.Value, d+1)}, as...), ",") + ")"
	}
	cal := cc.StaticCallee()
	if cal == nil {
		// call of a function value (closure variable)
		var as []string
		for _, a := range cc.Args {
			as = append(as, b.bindD(a, d+1))
		}
		return "call[" + b.bindD(cc.Value, d+1) + "](" + strings.Join(as, ",") + ")"
	}
	// generated proto getters: GetX(recv) -> proto:Type.X
	if isProtoPkg(fnPkgPath(cal)) && strings.HasPrefix(cal.Name(), "Get") && len(cal.Params) == 1 {
		return protoFieldLeaf(cal.Params[0].Type(), strings.TrimPrefix(cal.Name(), "Get")) + "?"
	}
	var as []string
	for _, a := range cc.Args {
		as = append(as, b.bindD(a, d+1))
	}
	fname := cal.Name()
	if cal.Signature.Recv() != nil && !b.c.P.fnIndex[cal] {
		fname = typeName(cal.Signature.Recv().Type()) + "." + fname
	} else if !b.c.P.fnIndex[cal] && cal.Pkg != nil {
		fname = cal.Pkg.Pkg.Name() + "." + fname
	}
	return fname + "(" + strings.Join(as, ",") + ")"
}

var leafRe = regexp.MustCompile(`(col|proto):[A-Za-z0-9_.?]+`)
var callRe = regexp.MustCompile(`([A-Za-z_][A-Za-z0-9_.$]*)\(`)

func leavesOf(expr string) []string {
	m := map[string]bool{}
	for _, l := range leafRe.FindAllString(expr, -1) {
		m[strings.TrimSuffix(l, "?")] = true
	}
	var out []string
	for k := range m {
		out = append(out, k)
	}
	sort.Strings(out)
	return out
}

func callsOf(expr string) []string {
	m := map[string]bool{}
	for _, mm := range callRe.FindAllStringSubmatch(expr, -1) {
		n := mm[1]
		switch n {
		case "phi", "conv", "deref", "cell", "lookup", "slice", "next", "range", "new", "make", "append", "len", "cap", "zero":
			continue
		}
		m[n] = true
	}
	var out []string
	for k := range m {
		out = append(out, k)
	}
	sort.Strings(out)
	return out
}

// fieldStores collects, for struct type tn (e.g. "gtfs.Route"), the stores to each field inside the given functions.
type fieldStore struct {
	fn    *ssa.Function
	store *ssa.Store
	field string
}

func collectFieldStores(fns []*ssa.Function, tn string) []fieldStore {
	var out []fieldStore
	for _, fn := range fns {
		for _, b := range fn.Blocks {
			for _, in := range b.Instrs {
				st, ok := in.(*ssa.Store)
				if !ok {
					continue
				}
				fa, ok := st.Addr.(*ssa.FieldAddr)
				if !ok || typeName(fa.X.Type()) != tn {
					continue
				}
				out = append(out, fieldStore{fn, st, fieldName(fa.X.Type(), fa.Field)})
			}
		}
	}
	return out
}

// resultCarriers: struct types whose fields are looked through field-based (a load of T.f is bound to whatever is
// stored into T.f anywhere in the module).
var resultCarriers = []string{"gtfs.ShapeRow", "gtfs.Agency", "gtfs.Route", "gtfs.Stop", "gtfs.Service", "gtfs.ScheduledTrip", "gtfs.Shape", "gtfs.Trip", "gtfs.TripID", "gtfs.Vehicle", "gtfs.VehicleID"}
