package main

// E3: binding extraction. A backward provenance slice from a stored value to its named
// sources (CSV column reads, proto field loads, constants), rendered as an expression.

import (
	"fmt"
	"go/token"
	"go/types"
	"regexp"
	"sort"
	"strconv"
	"strings"

	"golang.org/x/tools/go/ssa"
)

type binder struct {
	c    *Ctx
	memo map[ssa.Value]string
	busy map[ssa.Value]bool
	// subst: set while the body of an inlined selector helper is bound: its parameters -> the bound arguments
	subst   map[*ssa.Parameter]string
	inlineD int
	// classOf: rendered name of every module function that appears as an opaque call -> its signature class
	classOf map[string]string
	// showBodies: render calls of module helpers as name(args)=>{what they return, in terms of the arguments}
	showBodies bool
	// catForm: string concatenations and fmt.Sprintf with a format of literal text and %s only are both rendered as
	// cat[part, part, ...] (flattened, adjacent literals merged): how a string is put together is not what a rule asks
	catForm bool
	catRaw  map[string][]string // rendered cat[...] -> its unmerged parts (for splicing into an enclosing one)
	// useSite: when set, fieldRef of a local struct variable considers whether the field was assigned before this point
	useSite ssa.Instruction
	// carrier struct types whose fields are looked through (field-based): values stored into T.f
	carriers map[string]bool
	fieldSrc map[string][]ssa.Value // "Type.field" -> values stored (for carriers)
	// structSrc: rendered text of a struct value that a module helper returned -> where it came from (shared between a
	// binder and the binders made from it): `text.field` can then be read as what the helper put into that field
	structSrc map[string]structSource
	// structLits: rendered text of a struct literal built in place (field stores into a fresh variable) -> field -> text
	structLits map[string]map[string]string
	litForm    bool // render struct literals built in place as lit(T){...} (off: zero(T), fields are found through the variable)
}

type structSource struct {
	call *ssa.Call
	idx  int
	args []string
}

func newBinder(c *Ctx, carriers ...string) *binder {
	b := &binder{c: c, memo: map[ssa.Value]string{}, busy: map[ssa.Value]bool{}, carriers: map[string]bool{}, fieldSrc: map[string][]ssa.Value{}, classOf: map[string]string{}, structSrc: map[string]structSource{}, structLits: map[string]map[string]string{}}
	for _, k := range carriers {
		b.carriers[k] = true
	}
	if len(carriers) > 0 {
		for _, fn := range c.P.ModFns {
			for _, blk := range fn.Blocks {
				for _, in := range blk.Instrs {
					if st, ok := in.(*ssa.Store); ok {
						if fa, ok := st.Addr.(*ssa.FieldAddr); ok && b.carriers[typeName(fa.X.Type())] {
							k := typeName(fa.X.Type()) + "." + fieldName(fa.X.Type(), fa.Field)
							b.fieldSrc[k] = append(b.fieldSrc[k], st.Val)
						}
					}
				}
			}
		}
	}
	return b
}

func alts(xs []string) string {
	m := map[string]bool{}
	for _, x := range xs {
		m[x] = true
	}
	var u []string
	for x := range m {
		u = append(u, x)
	}
	sort.Strings(u)
	if len(u) == 1 {
		return u[0]
	}
	return "phi(" + strings.Join(u, "|") + ")"
}

func (b *binder) bind(v ssa.Value) string { return b.bindD(v, 0) }

func (b *binder) bindD(v ssa.Value, d int) string {
	if v == nil {
		return "nil"
	}
	if s, ok := b.memo[v]; ok {
		return s
	}
	if d > 25 || b.busy[v] {
		return "…"
	}
	b.busy[v] = true
	s := ""
	if parts, ok := b.catPartsTop(v, d); ok {
		s = "cat[" + strings.Join(parts, ", ") + "]"
	} else {
		s = b.bind1(v, d)
	}
	delete(b.busy, v)
	b.memo[v] = s
	return s
}

func protoFieldLeaf(t types.Type, field string) string {
	n := namedOf(t)
	if n == nil {
		return "proto:?." + field
	}
	return "proto:" + n.Obj().Name() + "." + field
}

func (b *binder) bind1(v ssa.Value, d int) string {
	switch x := v.(type) {
	case *ssa.Const:
		if x.Value == nil {
			return "const:nil"
		}
		return "const:" + constKey(x)
	case *ssa.Parameter:
		if b.subst != nil {
			if e, ok := b.subst[x]; ok {
				return e
			}
		}
		return paramRef(x)
	case *ssa.FreeVar:
		// captured variable: what the enclosing function stored into the cell
		fn := x.Parent()
		idx := freeVarIndex(fn, x)
		if par := fn.Parent(); par != nil {
			for _, blk := range par.Blocks {
				for _, in := range blk.Instrs {
					if mc, ok := in.(*ssa.MakeClosure); ok && mc.Fn == ssa.Value(fn) {
						return "cell(" + b.bindD(mc.Bindings[idx], d+1) + ")"
					}
				}
			}
		}
		return "captured:" + x.Name()
	case *ssa.Global:
		return globalRef(x)
	case *ssa.Function:
		return "func:" + x.Name()
	case *ssa.MakeInterface:
		return b.bindD(x.X, d+1)
	case *ssa.ChangeType:
		return b.bindD(x.X, d+1)
	case *ssa.ChangeInterface:
		return b.bindD(x.X, d+1)
	case *ssa.Convert:
		return "conv(" + b.bindD(x.X, d+1) + ")"
	case *ssa.BinOp:
		return "(" + b.bindD(x.X, d+1) + " " + x.Op.String() + " " + b.bindD(x.Y, d+1) + ")"
	case *ssa.Phi:
		var as []string
		for _, e := range x.Edges {
			as = append(as, b.bindD(e, d+1))
		}
		return alts(as)
	case *ssa.Extract:
		// key / value of a range over a local map: what was put into the map
		if nx, ok := x.Tuple.(*ssa.Next); ok {
			if rng, ok := nx.Iter.(*ssa.Range); ok {
				if _, isMap := rng.X.Type().Underlying().(*types.Map); isMap && (x.Index == 1 || x.Index == 2) {
					if s := b.mapSide(rng.X, x.Index == 1, d); s != "" {
						return s
					}
				}
			}
		}
		if call, ok := x.Tuple.(*ssa.Call); ok {
			if cal := call.Call.StaticCallee(); cal != nil && !call.Call.IsInvoke() {
				var as []string
				for _, a := range call.Call.Args {
					as = append(as, b.bindD(a, d+1))
				}
				if s, ok := b.inlineSelector(cal, as, x.Index, d); ok {
					return s
				}
			}
		}
		// a helper that is handed column objects and reads their cells itself: its k-th result, return by return, with
		// the parameters standing for the call's arguments (exits that answer with zero values are the rejections)
		if call, ok := x.Tuple.(*ssa.Call); ok && b.inlineD < 3 {
			if cal := call.Call.StaticCallee(); cal != nil && !call.Call.IsInvoke() && b.c.P.isModuleFn(cal) && len(cal.Blocks) > 0 && len(cal.Params) == len(call.Call.Args) && len(naturalLoops(cal)) == 0 {
				readsCol := false
				for _, prm := range cal.Params {
					if tn := typeName(prm.Type()); (strings.HasSuffix(tn, "csv.OptionalColumn") || strings.HasSuffix(tn, "csv.RequiredColumn")) && readsColumnParam(prm) {
						readsCol = true
					}
				}
				if readsCol {
					var as []string
					for _, a := range call.Call.Args {
						as = append(as, b.bindD(a, d+1))
					}
					sub := b.withArgs(cal, as)
					var vals []string
					okAll := true
					for _, blk := range cal.Blocks {
						ret, isRet := blk.Instrs[len(blk.Instrs)-1].(*ssa.Return)
						if !isRet || x.Index >= len(ret.Results) {
							continue
						}
						rv := ret.Results[x.Index]
						if _, isC := rv.(*ssa.Const); isC {
							continue
						}
						if ld, isLd := rv.(*ssa.UnOp); isLd && ld.Op == token.MUL {
							if al, isAl := ld.X.(*ssa.Alloc); isAl {
								written := false
								for _, r := range *al.Referrers() {
									switch r.(type) {
									case *ssa.FieldAddr, *ssa.Store, *ssa.Call:
										written = true
									}
								}
								if !written {
									continue // the zero value
								}
							}
						}
						v := sub.bindD(rv, d+1)
						if v == "" {
							okAll = false
						}
						vals = append(vals, v)
					}
					if okAll && len(vals) > 0 {
						for k, v := range sub.classOf {
							b.classOf[k] = v
						}
						return alts(vals)
					}
				}
			}
		}
		if call, ok := x.Tuple.(*ssa.Call); ok && b.showBodies && b.inlineD < 2 {
			if cal := call.Call.StaticCallee(); cal != nil && !call.Call.IsInvoke() && b.c.P.isModuleFn(cal) && len(cal.Blocks) > 0 && !isProtoPkg(fnPkgPath(cal)) {
				var as []string
				for _, a := range call.Call.Args {
					as = append(as, b.bindD(a, d+1))
				}
				if len(as) == len(cal.Params) {
					if body := b.bodyOf(cal, as, x.Index, d); body != "" {
						b.classOf[cal.Name()] = sigClass(cal)
						out := cal.Name() + "(" + strings.Join(as, ",") + ")#" + fmt.Sprint(x.Index) + "=>{" + body + "}"
						if _, isStruct := x.Type().Underlying().(*types.Struct); isStruct && b.structSrc != nil {
							b.structSrc[out] = structSource{call, x.Index, as}
						}
						return out
					}
				}
			}
		}
		out := b.bindD(x.Tuple, d+1) + "#" + fmt.Sprint(x.Index)
		if call, ok := x.Tuple.(*ssa.Call); ok && b.structSrc != nil {
			if _, isStruct := x.Type().Underlying().(*types.Struct); isStruct {
				if cal := call.Call.StaticCallee(); cal != nil && !call.Call.IsInvoke() && b.c.P.isModuleFn(cal) && len(cal.Blocks) > 0 && !isProtoPkg(fnPkgPath(cal)) {
					var as []string
					for _, a := range call.Call.Args {
						as = append(as, b.bindD(a, d+1))
					}
					b.structSrc[out] = structSource{call, x.Index, as}
				}
			}
		}
		return out
	case *ssa.Lookup:
		if _, isMap := x.X.Type().Underlying().(*types.Map); isMap {
			if vals := b.mapSide(x.X, false, d); vals != "" {
				return "lookup(" + mapRef(x.X) + "," + b.bindD(x.Index, d+1) + ")=>" + vals
			}
		}
		return "lookup(" + mapRef(x.X) + "," + b.bindD(x.Index, d+1) + ")"
	case *ssa.TypeAssert:
		return b.bindD(x.X, d+1)
	case *ssa.Slice:
		// a literal / variadic array: list its elements
		if arr := isLocalArrayAlloc(x.X); arr != nil {
			elems := map[int64][]string{}
			var idxs []int64
			for _, r := range *arr.Referrers() {
				if ia, ok := r.(*ssa.IndexAddr); ok {
					if k, ok := constInt(ia.Index); ok {
						for _, r2 := range *ia.Referrers() {
							if st, ok := r2.(*ssa.Store); ok && st.Addr == ssa.Value(ia) {
								if _, seen := elems[k]; !seen {
									idxs = append(idxs, k)
								}
								elems[k] = append(elems[k], b.bindD(st.Val, d+1))
							}
						}
					}
				}
			}
			if len(idxs) > 0 {
				sort.Slice(idxs, func(i, j int) bool { return idxs[i] < idxs[j] })
				var parts []string
				for _, k := range idxs {
					parts = append(parts, alts(elems[k]))
				}
				return "[" + strings.Join(parts, ", ") + "]"
			}
		}
		if x.Low != nil || x.High != nil {
			lo, hi := "", ""
			if x.Low != nil {
				lo = b.bindD(x.Low, d+1)
			}
			if x.High != nil {
				hi = b.bindD(x.High, d+1)
			}
			return "slice(" + b.bindD(x.X, d+1) + "," + lo + ":" + hi + ")"
		}
		return "slice(" + b.bindD(x.X, d+1) + ")"
	case *ssa.MakeClosure:
		return "closure:" + x.Fn.Name()
	case *ssa.Alloc:
		// address of a local: what is stored there
		var as []string
		for _, sv := range cellStores(x) {
			as = append(as, b.bindD(sv, d+1))
		}
		if len(as) == 0 {
			return "&new(" + typeName(deref(x.Type())) + ")"
		}
		return "&(" + alts(as) + ")"
	case *ssa.FieldAddr:
		return "&" + b.fieldRef(x.X, x.Field, d)
	case *ssa.Field:
		base := b.bindD(x.X, d+1)
		if r, ok := b.structField(base, x.Field, d); ok {
			return r
		}
		if lit, ok := b.structLits[base]; ok {
			if fv, has := lit[fieldName(x.X.Type(), x.Field)]; has {
				return fv
			}
			return "zero(" + typeName(x.X.Type()) + ")." + fieldName(x.X.Type(), x.Field)
		}
		return base + "." + fieldName(x.X.Type(), x.Field)
	case *ssa.IndexAddr:
		return "&" + b.bindD(x.X, d+1) + "[" + b.bindD(x.Index, d+1) + "]"
	case *ssa.Index:
		return b.bindD(x.X, d+1) + "[" + b.bindD(x.Index, d+1) + "]"
	case *ssa.UnOp:
		if x.Op != token.MUL {
			return x.Op.String() + "(" + b.bindD(x.X, d+1) + ")"
		}
		switch a := x.X.(type) {
		case *ssa.FieldAddr:
			return b.fieldRef(a.X, a.Field, d)
		case *ssa.Alloc:
			var as []string
			for _, sv := range cellStores(a) {
				as = append(as, b.bindD(sv, d+1))
			}
			if len(as) == 0 {
				// a struct literal built in place: its fields, one store each
				if sst, isSt := deref(a.Type()).Underlying().(*types.Struct); isSt && b.structLits != nil && (b.litForm || unexportedModuleStruct(deref(a.Type()))) {
					fields := map[string]string{}
					okLit := true
					for _, r := range *a.Referrers() {
						fa, isFA := r.(*ssa.FieldAddr)
						if !isFA {
							continue
						}
						for _, r2 := range *fa.Referrers() {
							if st, isStore := r2.(*ssa.Store); isStore && st.Addr == ssa.Value(fa) {
								fn := sst.Field(fa.Field).Name()
								if _, dup := fields[fn]; dup {
									okLit = false
								}
								fields[fn] = b.bindD(st.Val, d+1)
							}
						}
					}
					if okLit && len(fields) > 0 {
						var names []string
						for fn := range fields {
							names = append(names, fn)
						}
						sort.Strings(names)
						var parts []string
						for _, fn := range names {
							parts = append(parts, fn+"="+fields[fn])
						}
						out := "lit(" + typeName(deref(a.Type())) + "){" + strings.Join(parts, ";") + "}"
						b.structLits[out] = fields
						return out
					}
				}
				return "zero(" + typeName(deref(a.Type())) + ")"
			}
			return alts(as)
		case *ssa.IndexAddr:
			// element of a local literal array: what was stored at that index (or any index)
			if arr := isLocalArrayAlloc(a.X); arr != nil {
				var as []string
				k, isC := constInt(a.Index)
				for _, r := range *arr.Referrers() {
					if ia, ok := r.(*ssa.IndexAddr); ok {
						if kk, ok := constInt(ia.Index); ok && isC && kk != k {
							continue
						}
						for _, r2 := range *ia.Referrers() {
							if st, ok := r2.(*ssa.Store); ok && st.Addr == ssa.Value(ia) {
								// filled by a loop `arr[i] = f(i)` whose i visits every index: element k is f(k)
								if _, storeConst := ia.Index.(*ssa.Const); !storeConst && isC && idxSubst[ia.Index] == 0 {
									if n, isR := rangeIndexConst(ia.Index); (isR && k < n) || rangeIndexSeq(ia.Index) != nil {
										saved := idxSubst
										ns := map[ssa.Value]int64{}
										for kk, vv := range saved {
											ns[kk] = vv
										}
										ns[ia.Index] = k
										idxSubst = ns
										sub := b.withArgs(st.Parent(), nil) // a fresh memo: the same values read differently
										sub.subst = b.subst
										sub.inlineD = b.inlineD
										sub.showBodies = b.showBodies
										as = append(as, sub.bindD(st.Val, d+1))
										idxSubst = saved
										continue
									}
								}
								as = append(as, b.bindD(st.Val, d+1))
							}
						}
					}
				}
				// the array variable holds what a helper of the module returned: the helper's own local array, filled there
				// (element k of `days := cols.read()` is what read() stored at index k)
				if len(as) == 0 && isC && b.inlineD < 3 {
					for _, sv := range cellStores(arr) {
						call, isCall := sv.(*ssa.Call)
						if !isCall || call.Call.IsInvoke() {
							continue
						}
						h := call.Call.StaticCallee()
						if h == nil || !b.c.P.isModuleFn(h) || len(h.Blocks) == 0 || len(h.Params) != len(call.Call.Args) {
							continue
						}
						var args []string
						for _, av := range call.Call.Args {
							args = append(args, b.bindD(av, d+1))
						}
						sub := b.withArgs(h, args)
						for _, hb := range h.Blocks {
							ret, isRet := hb.Instrs[len(hb.Instrs)-1].(*ssa.Return)
							if !isRet || len(ret.Results) != 1 {
								continue
							}
							ld, isLd := ret.Results[0].(*ssa.UnOp)
							if !isLd || ld.Op != token.MUL {
								continue
							}
							harr, isAl := ld.X.(*ssa.Alloc)
							if !isAl {
								continue
							}
							for _, r := range *harr.Referrers() {
								ia, ok := r.(*ssa.IndexAddr)
								if !ok {
									continue
								}
								for _, r2 := range *ia.Referrers() {
									st, ok := r2.(*ssa.Store)
									if !ok || st.Addr != ssa.Value(ia) {
										continue
									}
									if kk, isK := constInt(ia.Index); isK {
										if kk == k {
											as = append(as, sub.bindD(st.Val, d+1))
										}
										continue
									}
									if n, isR := rangeIndexConst(ia.Index); (isR && k < n) || rangeIndexSeq(ia.Index) != nil {
										saved := idxSubst
										ns := map[ssa.Value]int64{}
										for kk, vv := range saved {
											ns[kk] = vv
										}
										ns[ia.Index] = k
										idxSubst = ns
										s2 := b.withArgs(h, args)
										as = append(as, s2.bindD(st.Val, d+1))
										idxSubst = saved
									}
								}
							}
						}
					}
				}
				if len(as) > 0 {
					return alts(as)
				}
			}
			return b.bindD(a.X, d+1) + "[" + b.bindD(a.Index, d+1) + "]"
		case *ssa.Global:
			return globalRef(a)
		case *ssa.FreeVar:
			return b.bindD(a, d+1)
		}
		return "deref(" + b.bindD(x.X, d+1) + ")"
	case *ssa.Call:
		return b.bindCall(x, d)
	case *ssa.Next:
		return "next(" + b.bindD(x.Iter, d+1) + ")"
	case *ssa.Range:
		return "range(" + describeMapExpr(x.X) + ")"
	case *ssa.MakeMap:
		return "map:" + describeMapExpr(x)
	case *ssa.MakeSlice:
		return "make"
	}
	return fmt.Sprintf("?%T", v)
}

// cellStores: every value stored into a local variable cell, in its function and in the closures that capture it.
func cellStores(a *ssa.Alloc) []ssa.Value {
	var out []ssa.Value
	seen := map[ssa.Value]bool{}
	var visit func(cell ssa.Value, d int)
	visit = func(cell ssa.Value, d int) {
		if seen[cell] || d > 4 || cell.Referrers() == nil {
			return
		}
		seen[cell] = true
		for _, r := range *cell.Referrers() {
			switch x := r.(type) {
			case *ssa.Store:
				if x.Addr == cell {
					out = append(out, x.Val)
				}
			case *ssa.MakeClosure:
				cl := x.Fn.(*ssa.Function)
				for i, bnd := range x.Bindings {
					if bnd == cell {
						visit(cl.FreeVars[i], d+1)
					}
				}
			}
		}
	}
	visit(a, 0)
	return out
}

// mapSide: the bindings of all keys (or values) ever stored into map m (same SSA value; parameters are followed to
// the call sites' arguments when they are local maps there).
func (b *binder) mapSide(m ssa.Value, keys bool, d int) string {
	var as []string
	origins := b.c.P.valueOrigins(m)
	for _, fn := range b.c.P.ModFns {
		for _, blk := range fn.Blocks {
			for _, in := range blk.Instrs {
				mu, ok := in.(*ssa.MapUpdate)
				if !ok || !types.Identical(mu.Map.Type(), m.Type()) {
					continue
				}
				if mu.Map != m {
					o2 := b.c.P.valueOrigins(mu.Map)
					if !o2.intersects(origins) {
						continue
					}
				}
				v := mu.Value
				if keys {
					v = mu.Key
				}
				e := b.bindD(v, d+1)
				// an `add(key, value)` method of a named map type: what its callers pass
				if fn != m.Parent() && strings.Contains(e, "param:") && d < 12 {
					within := map[*ssa.Function]bool{}
					for _, ce := range b.c.P.Callers(fn) {
						within[ce.Caller] = true
					}
					if e2 := b.bindInContext(fn, v, within, 2); e2 != "" {
						e = e2
					}
				}
				as = append(as, e)
			}
		}
	}
	if len(as) == 0 {
		return ""
	}
	return alts(as)
}

// fieldRef renders the value of field `field` of the struct denoted by base (a pointer or address).
func (b *binder) fieldRef(base ssa.Value, field int, d int) string {
	t := base.Type()
	fname := fieldName(t, field)
	tn := typeName(t)
	n := namedOf(t)
	if n != nil && n.Obj().Pkg() != nil && isProtoPkg(n.Obj().Pkg().Path()) {
		return protoFieldLeaf(t, fname)
	}
	if b.carriers[tn] {
		var as []string
		for _, v := range b.fieldSrc[tn+"."+fname] {
			s := b.bindD(v, d+1)
			// the carrier is filled in a constructor helper from its parameters: say what the callers pass
			if strings.Contains(s, "param:") && v.Parent() != nil && d < 12 {
				within := map[*ssa.Function]bool{}
				for _, e := range b.c.P.Callers(v.Parent()) {
					within[e.Caller] = true
				}
				if s2 := b.bindInContext(v.Parent(), v, within, 2); s2 != "" {
					s = s2
				}
			}
			as = append(as, s)
		}
		if len(as) > 0 {
			return alts(as)
		}
	}
	// the struct a helper of the module handed back (its argument itself, or a copy it made and adjusted): the field
	// of what each of its returns hands back, with the helper's parameters standing for the call's arguments
	if call, ok := base.(*ssa.Call); ok && !call.Call.IsInvoke() && b.inlineD < 3 && d < 16 {
		if h := call.Call.StaticCallee(); h != nil && b.c.P.isModuleFn(h) && len(h.Blocks) > 0 && len(h.Params) == len(call.Call.Args) && h.Signature.Results().Len() == 1 && !isProtoPkg(fnPkgPath(h)) {
			if _, isPtr := h.Signature.Results().At(0).Type().Underlying().(*types.Pointer); isPtr {
				var args []string
				for _, a := range call.Call.Args {
					args = append(args, b.bindD(a, d+1))
				}
				sub := b.withArgs(h, args)
				sub.useSite = nil
				var as []string
				for _, hb := range h.Blocks {
					if ret, isRet := hb.Instrs[len(hb.Instrs)-1].(*ssa.Return); isRet && len(ret.Results) == 1 {
						as = append(as, sub.fieldRef(ret.Results[0], field, d+1))
					}
				}
				if len(as) > 0 {
					return alts(as)
				}
			}
		}
	}
	if a, ok := base.(*ssa.Alloc); ok {
		// a local struct variable: what was stored into this field (field stores), or the field of what was copied in
		var as []string
		for _, r := range *a.Referrers() {
			if fa, ok := r.(*ssa.FieldAddr); ok && fa.Field == field {
				for _, r2 := range *fa.Referrers() {
					if st, ok := r2.(*ssa.Store); ok && st.Addr == ssa.Value(fa) {
						as = append(as, b.bindD(st.Val, d+1))
					}
				}
			}
		}
		whole := cellStores(a)
		for _, sv := range whole {
			bs := b.bindD(sv, d+1)
			if r, ok := b.structField(bs, field, d); ok {
				as = append(as, r) // a struct a helper returned, copied into this variable
				continue
			}
			if lit, ok := b.structLits[bs]; ok {
				if fv, has := lit[fname]; has {
					as = append(as, fv)
				} else {
					as = append(as, "zero("+tn+")."+fname)
				}
				continue
			}
			as = append(as, selectField(bs, fname))
		}
		// when the caller says where the value is used (useSite): the field still holds its zero value there unless an
		// assignment of the whole variable or of this field dominates that point
		if b.useSite != nil {
			written := false
			for _, r := range *a.Referrers() {
				switch x := r.(type) {
				case *ssa.Store:
					if x.Addr == ssa.Value(a) && dominatesInstr(x, b.useSite) {
						written = true
					}
				case *ssa.FieldAddr:
					if x.Field == field {
						for _, r2 := range *x.Referrers() {
							if st, ok := r2.(*ssa.Store); ok && st.Addr == ssa.Value(x) && dominatesInstr(st, b.useSite) {
								written = true
							}
						}
					}
				}
			}
			if !written {
				as = append(as, "zero("+typeName(deref(a.Type()))+")."+fname)
			}
		}
		if len(as) > 0 {
			return alts(as)
		}
		return "zero(" + typeName(deref(a.Type())) + ")." + fname
	}
	if phi, ok := base.(*ssa.Phi); ok && d < 20 {
		// the field of whichever object the variable denotes
		var as []string
		for i, e := range phi.Edges {
			if e == ssa.Value(phi) {
				continue
			}
			saved := b.useSite
			if saved != nil {
				pred := phi.Block().Preds[i]
				b.useSite = pred.Instrs[len(pred.Instrs)-1] // the value flows in at the end of this predecessor
			}
			as = append(as, b.fieldRef(e, field, d+1))
			b.useSite = saved
		}
		cyclic := false
		for _, a := range as {
			if strings.Contains(a, "…") {
				cyclic = true
			}
		}
		if len(as) > 0 && !cyclic {
			return alts(as)
		}
	}
	bs := b.bindD(base, d+1)
	switch base.(type) {
	case *ssa.FieldAddr, *ssa.IndexAddr:
		bs = strings.TrimPrefix(bs, "&") // the address of the enclosing object: select the field of the object itself
	case *ssa.FreeVar, *ssa.UnOp:
		return selectField(bs, fname) // a captured variable / a loaded pointer: the field of the object it denotes
	case *ssa.Parameter:
		// a pointer parameter that stands for `&x.f` of the caller: the field of that object
		if strings.HasPrefix(bs, "&") && !strings.HasPrefix(bs, "&(") {
			bs = strings.TrimPrefix(bs, "&")
		}
	}
	if r, ok := b.structField(bs, field, d); ok {
		return r
	}
	return bs + "." + fname
}

// structField: base is the rendered text of a struct value that a module helper returned (see structSrc): the field is
// what the helper's returns put there (a returned struct literal's field store), with the helper's parameters standing
// for the call's arguments. Returns that hand back the zero struct (the `return T{}, false` exits) are left out when
// another return builds a value.
func (b *binder) structField(base string, field int, d int) (string, bool) {
	if b.structSrc == nil || d > 20 {
		return "", false
	}
	src, ok := b.structSrc[base]
	if !ok {
		return "", false
	}
	cal := src.call.Call.StaticCallee()
	if cal == nil || len(src.args) != len(cal.Params) {
		return "", false
	}
	sub := b.withArgs(cal, src.args)
	var vals, zeros []string
	for _, blk := range cal.Blocks {
		ret, isRet := blk.Instrs[len(blk.Instrs)-1].(*ssa.Return)
		if !isRet || src.idx >= len(ret.Results) {
			continue
		}
		rv := ret.Results[src.idx]
		switch x := rv.(type) {
		case *ssa.Const:
			zeros = append(zeros, "zero("+typeName(rv.Type())+")."+fieldName(rv.Type(), field))
		case *ssa.UnOp:
			al, isAl := x.X.(*ssa.Alloc)
			if x.Op != token.MUL || !isAl {
				return "", false
			}
			written := false
			for _, r := range *al.Referrers() {
				if _, isFA := r.(*ssa.FieldAddr); isFA {
					written = true
				}
				if st, isSt := r.(*ssa.Store); isSt && st.Addr == ssa.Value(al) {
					written = true
				}
			}
			if !written {
				zeros = append(zeros, "zero("+typeName(rv.Type())+")."+fieldName(rv.Type(), field))
				continue
			}
			vals = append(vals, sub.fieldRef(al, field, d+1))
		default:
			return "", false
		}
	}
	if len(vals) == 0 {
		vals = zeros
	}
	if len(vals) == 0 {
		return "", false
	}
	return alts(vals), true
}

func (b *binder) bindCall(x *ssa.Call, d int) string {
	cc := x.Common()
	if bi, ok := cc.Value.(*ssa.Builtin); ok {
		var as []string
		for _, a := range cc.Args {
			as = append(as, b.bindD(a, d+1))
		}
		return bi.Name() + "(" + strings.Join(as, ",") + ")"
	}
	name := calleeName(x)
	switch name {
	case "(" + modPath + "/csv.OptionalColumn).Read", "(" + modPath + "/csv.RequiredColumn).Read":
		if ci, _ := resolveColumn(cc.Args[0], 0); ci != nil {
			return "col:" + ci.name
		}
		return "col:?"
	case "(" + modPath + "/csv.OptionalColumn).ReadOr":
		if ci, _ := resolveColumn(cc.Args[0], 0); ci != nil {
			return "col:" + ci.name + "|d"
		}
		return "col:?"
	}
	if cc.IsInvoke() {
		var as []string
		for _, a := range cc.Args {
			as = append(as, b.bindD(a, d+1))
		}
		return cc.Method.Name() + "(" + strings.Join(append([]string{b.bindD(cc.Value, d+1)}, as...), ",") + ")"
	}
	cal := cc.StaticCallee()
	if cal == nil {
		// call of a function value (closure variable)
		var as []string
		for _, a := range cc.Args {
			as = append(as, b.bindD(a, d+1))
		}
		return "call[" + b.bindD(cc.Value, d+1) + "](" + strings.Join(as, ",") + ")"
	}
	// generated proto getters: GetX(recv) -> proto:Type.X
	if isProtoPkg(fnPkgPath(cal)) && strings.HasPrefix(cal.Name(), "Get") && len(cal.Params) == 1 {
		return protoFieldLeaf(cal.Params[0].Type(), strings.TrimPrefix(cal.Name(), "Get")) + "?"
	}
	var as []string
	for i, a := range cc.Args {
		// a column object handed to a helper that reads it: the helper's result is a function of that column's cell
		if tn := typeName(a.Type()); (strings.HasSuffix(tn, "csv.OptionalColumn") || strings.HasSuffix(tn, "csv.RequiredColumn")) && i < len(cal.Params) && b.c.P.isModuleFn(cal) && readsColumnParam(cal.Params[i]) {
			if ci, _ := resolveColumn(a, 0); ci != nil {
				as = append(as, "col:"+ci.name)
				continue
			}
		}
		as = append(as, b.bindD(a, d+1))
	}
	if s, ok := b.inlineSelector(cal, as, -1, d); ok {
		return s
	}
	// a helper that hands back the object it was given, or a copy of it (adjusted in some field): as a source of
	// data it is that object (which field was adjusted is what fieldRef reads through the helper)
	if len(as) == 1 && sameObjectOrCopy(cal) {
		return as[0]
	}
	// a local closure over the function's column objects that is told by a constant which column to read
	// (`runsOn := func(day int) bool { return cols[day].Read() == "1" }; runsOn(3)`): its one result with the
	// constant put in place of the parameter
	if (cal.Parent() != nil || b.c.P.isModuleFn(cal)) && len(cal.Blocks) == 1 && len(cal.Params) == len(cc.Args) && len(cc.Args) > 0 && b.inlineD < 3 {
		if ret, isRet := cal.Blocks[0].Instrs[len(cal.Blocks[0].Instrs)-1].(*ssa.Return); isRet && len(ret.Results) == 1 {
			allConst := true
			saved := idxSubst
			ns := map[ssa.Value]int64{}
			for k, v := range saved {
				ns[k] = v
			}
			nConst := 0
			for i, a := range cc.Args {
				k, isC := constInt(a)
				if !isC {
					// the receiver of a method on a column array type: the array itself, resolved where it is indexed
					if _, isArr := a.Type().Underlying().(*types.Array); isArr && cal.Parent() == nil {
						continue
					}
					allConst = false
					break
				}
				nConst++
				ns[cal.Params[i]] = k
			}
			if nConst == 0 {
				allConst = false
			}
			readsColumn := false
			for _, in := range cal.Blocks[0].Instrs {
				if c2, ok := in.(*ssa.Call); ok && strings.HasPrefix(calleeName(c2), "("+modPath+"/csv.") {
					readsColumn = true
				}
			}
			if allConst && readsColumn {
				idxSubst = ns
				out := b.withArgs(cal, as).bindD(ret.Results[0], d+1)
				idxSubst = saved
				return out
			}
		}
	}
	if b.c.P.isModuleFn(cal) {
		b.classOf[cal.Name()] = sigClass(cal)
	}
	body := ""
	if b.showBodies && b.c.P.isModuleFn(cal) && b.inlineD < 2 && len(cal.Blocks) > 0 && len(cal.Params) == len(as) && !isProtoPkg(fnPkgPath(cal)) && cal.Signature.Results().Len() == 1 {
		body = b.bodyOf(cal, as, 0, d)
	}
	defer func() { _ = body }()
	fname := cal.Name()
	if cal.Signature.Recv() != nil && !b.c.P.fnIndex[cal] {
		fname = typeName(cal.Signature.Recv().Type()) + "." + fname
	} else if !b.c.P.fnIndex[cal] && cal.Pkg != nil {
		fname = cal.Pkg.Pkg.Name() + "." + fname
	}
	if body != "" {
		return fname + "(" + strings.Join(as, ",") + ")=>{" + body + "}"
	}
	return fname + "(" + strings.Join(as, ",") + ")"
}

// bodyOf: the alternatives of result idx of cal with its parameters standing for the bound arguments ("" when too big).
func (b *binder) bodyOf(cal *ssa.Function, args []string, idx int, d int) string {
	sub := b.withArgs(cal, args)
	sub.showBodies = true
	var as []string
	for _, blk := range cal.Blocks {
		if ret, ok := blk.Instrs[len(blk.Instrs)-1].(*ssa.Return); ok && idx < len(ret.Results) {
			as = append(as, sub.bindD(ret.Results[idx], d+1))
		}
	}
	s := alts(as)
	if len(s) > 900 {
		return ""
	}
	return s
}

var leafRe = regexp.MustCompile(`(col|proto):[A-Za-z0-9_.?]+`)
var callRe = regexp.MustCompile(`([A-Za-z_][A-Za-z0-9_.$]*)\(`)

func leavesOf(expr string) []string {
	m := map[string]bool{}
	for _, l := range leafRe.FindAllString(expr, -1) {
		m[strings.TrimSuffix(l, "?")] = true
	}
	var out []string
	for k := range m {
		out = append(out, k)
	}
	sort.Strings(out)
	return out
}

func callsOf(expr string) []string {
	m := map[string]bool{}
	for _, mm := range callRe.FindAllStringSubmatch(expr, -1) {
		n := mm[1]
		switch n {
		case "phi", "conv", "deref", "cell", "lookup", "slice", "next", "range", "new", "make", "append", "len", "cap", "zero":
			continue
		}
		m[n] = true
	}
	var out []string
	for k := range m {
		out = append(out, k)
	}
	sort.Strings(out)
	return out
}

// fieldStores collects, for struct type tn (e.g. "gtfs.Route"), the stores to each field inside the given functions.
type fieldStore struct {
	fn    *ssa.Function
	store *ssa.Store
	field string
}

func collectFieldStores(fns []*ssa.Function, tn string) []fieldStore {
	var out []fieldStore
	for _, fn := range fns {
		for _, b := range fn.Blocks {
			for _, in := range b.Instrs {
				st, ok := in.(*ssa.Store)
				if !ok {
					continue
				}
				fa, ok := st.Addr.(*ssa.FieldAddr)
				if !ok || typeName(fa.X.Type()) != tn {
					continue
				}
				out = append(out, fieldStore{fn, st, fieldName(fa.X.Type(), fa.Field)})
			}
		}
	}
	return out
}

// resultCarriers: struct types whose fields are looked through field-based (a load of T.f is bound to whatever is
// stored into T.f anywhere in the module).
var resultCarriers = []string{"gtfs.ShapeRow", "gtfs.Agency", "gtfs.Route", "gtfs.Stop", "gtfs.Service", "gtfs.ScheduledTrip", "gtfs.Shape", "gtfs.Trip", "gtfs.TripID", "gtfs.Vehicle", "gtfs.VehicleID"}

// paramRef renders a parameter by its type (and its rank among the parameters of the same type), never by its name:
// renaming a parameter must not change any expression.
func paramTypeName(t types.Type) string {
	if namedOf(t) != nil {
		return typeName(t)
	}
	return shortType(t)
}

func paramRef(x *ssa.Parameter) string {
	tn := paramTypeName(x.Type())
	n, k := 0, 0
	if fn := x.Parent(); fn != nil {
		for _, q := range fn.Params {
			if paramTypeName(q.Type()) == tn {
				if q == x {
					k = n
				}
				n++
			}
		}
	}
	if n > 1 {
		return fmt.Sprintf("param:<%s#%d>", tn, k)
	}
	return "param:<" + tn + ">"
}

// selectField renders e.f, distributing over alternatives and dropping an address-of prefix.
func selectField(e, f string) string {
	// the field of the object that an address, a pointer or a captured variable denotes
	for changed := true; changed; {
		changed = false
		for _, pre := range []string{"&", "cell(", "deref(", "("} {
			if pre == "&" {
				if strings.HasPrefix(e, "&") {
					e = e[1:]
					changed = true
				}
				continue
			}
			if strings.HasPrefix(e, pre) && strings.HasSuffix(e, ")") && balanced(e[len(pre):len(e)-1]) && !strings.HasPrefix(e, "phi(") {
				e = e[len(pre) : len(e)-1]
				changed = true
			}
		}
	}
	return e + "." + f
}

func balanced(s string) bool {
	d := 0
	for _, r := range s {
		switch r {
		case '(':
			d++
		case ')':
			d--
			if d < 0 {
				return false
			}
		}
	}
	return d == 0
}

// inlineSelector: a module helper whose result is, on every path, one of its arguments, a field / element / dereference
// of one, or a constant (no call, no arithmetic beyond comparisons) is looked through: the call is rendered as the
// alternatives of its results with the arguments substituted. Extracting such a helper from a function, or inlining
// it back, then leaves every expression unchanged up to the set of alternatives. res = -1: single result.
func (b *binder) inlineSelector(cal *ssa.Function, args []string, res int, d int) (string, bool) {
	if !b.c.P.isModuleFn(cal) || len(cal.Blocks) == 0 || b.inlineD >= 3 || len(cal.Params) != len(args) || d > 20 {
		return "", false
	}
	if isProtoPkg(fnPkgPath(cal)) {
		return "", false
	}
	sub := b.withArgs(cal, args)
	var as []string
	fromParam := false
	for _, blk := range cal.Blocks {
		ret, ok := blk.Instrs[len(blk.Instrs)-1].(*ssa.Return)
		if !ok {
			continue
		}
		idx := res
		if idx < 0 {
			if len(ret.Results) != 1 {
				return "", false
			}
			idx = 0
		}
		if idx >= len(ret.Results) {
			return "", false
		}
		if !selectorValue(ret.Results[idx], cal, 0) {
			return "", false
		}
		if mentionsParam(ret.Results[idx], 0) {
			fromParam = true
		}
		as = append(as, sub.bindD(ret.Results[idx], d+1))
	}
	if len(as) == 0 || !fromParam {
		// a function that only ever returns constants is a decoder (its argument decides which), not a selector
		return "", false
	}
	return alts(as), true
}

// selectorValue: v is built from parameters, constants, loads, field / element selections and phis only.
func selectorValue(v ssa.Value, fn *ssa.Function, d int) bool {
	if d > 12 {
		return false
	}
	switch x := v.(type) {
	case *ssa.Const, *ssa.Parameter:
		return true
	case *ssa.Phi:
		for _, e := range x.Edges {
			if !selectorValue(e, fn, d+1) {
				return false
			}
		}
		return true
	case *ssa.UnOp:
		return x.Op == token.MUL && selectorValue(x.X, fn, d+1)
	case *ssa.FieldAddr:
		return selectorValue(x.X, fn, d+1)
	case *ssa.Field:
		return selectorValue(x.X, fn, d+1)
	case *ssa.IndexAddr:
		return selectorValue(x.X, fn, d+1)
	case *ssa.ChangeType:
		return selectorValue(x.X, fn, d+1)
	case *ssa.Alloc:
		// a by-value parameter (receiver) spilled to a variable: its one store is the parameter
		vals := cellStores(x)
		if len(vals) != 1 {
			return false
		}
		_, isPrm := vals[0].(*ssa.Parameter)
		return isPrm
	case *ssa.BinOp:
		// two selected strings put together (`id.station + id.direction`)
		if bt, ok := x.Type().Underlying().(*types.Basic); ok && bt.Info()&types.IsString != 0 && x.Op == token.ADD {
			return selectorValue(x.X, fn, d+1) && selectorValue(x.Y, fn, d+1)
		}
	}
	return false
}

func mentionsParam(v ssa.Value, d int) bool {
	if d > 12 {
		return false
	}
	switch x := v.(type) {
	case *ssa.Parameter:
		return true
	case *ssa.Phi:
		for _, e := range x.Edges {
			if mentionsParam(e, d+1) {
				return true
			}
		}
	case *ssa.UnOp:
		return mentionsParam(x.X, d+1)
	case *ssa.BinOp:
		return mentionsParam(x.X, d+1) || mentionsParam(x.Y, d+1)
	case *ssa.Alloc:
		for _, sv := range cellStores(x) {
			if _, isPrm := sv.(*ssa.Parameter); isPrm {
				return true
			}
		}
	case *ssa.FieldAddr:
		return mentionsParam(x.X, d+1)
	case *ssa.Field:
		return mentionsParam(x.X, d+1)
	case *ssa.IndexAddr:
		return mentionsParam(x.X, d+1)
	case *ssa.ChangeType:
		return mentionsParam(x.X, d+1)
	}
	return false
}

// sigClass identifies a module function by what it converts, not by its name: the types of its parameters other than
// context (options, location, extension) and of its results.
func sigClass(fn *ssa.Function) string {
	ctx := map[string]bool{"gtfs.ParseRealtimeOptions": true, "time.Location": true, "extensions.Extension": true, "gtfs.ParseStaticOptions": true}
	var ps []string
	for _, p := range fn.Params {
		if ctx[typeName(p.Type())] {
			continue
		}
		ps = append(ps, classType(p.Type()))
	}
	var rs []string
	res := fn.Signature.Results()
	for i := 0; i < res.Len(); i++ {
		rs = append(rs, classType(res.At(i).Type()))
	}
	return "(" + strings.Join(ps, ",") + ")→(" + strings.Join(rs, ",") + ")"
}

// normClass: a signature class with the convention for "no value" factored out. A converter may say "there is no
// value" with a nil pointer, with a boolean next to the value (before or after it) or with an error: (string)→(*T),
// (string)→(T,bool), (string)→(bool,T) and (string)→(T,error) are the same converter as far as the tables that name
// allowed transformers are concerned (what the converter computes is the subject of other rules).
func normClass(cls string) string {
	i := strings.Index(cls, "→(")
	if i < 0 || !strings.HasSuffix(cls, ")") {
		return cls
	}
	res := strings.Split(cls[i+len("→("):len(cls)-1], ",")
	var vals []string
	flagged := false
	for _, r := range res {
		if (r == "bool" || r == "error") && len(res) > 1 {
			flagged = true
			continue
		}
		vals = append(vals, r)
	}
	if len(vals) == 1 && strings.HasPrefix(vals[0], "*") && !flagged && len(res) == 1 {
		// a pointer to a basic value stands for "value or none"; pointers to the module's structs stay as they are
		if !strings.Contains(vals[0], ".") || vals[0] == "*time.Time" || vals[0] == "*time.Duration" {
			vals[0] = vals[0][1:]
			flagged = true
		}
	}
	out := cls[:i] + "→(" + strings.Join(vals, ",")
	if flagged {
		out += "?"
	}
	return out + ")"
}

func shortType(t types.Type) string {
	return types.TypeString(t, func(p *types.Package) string { return p.Name() })
}

// classAllowed: call name cl (as rendered in an expression) is one of the allowed transformers: by name for functions
// outside the module and exported API, by signature class for the module's own helpers (whatever they are called).
func (b *binder) classAllowed(cl string, allowed []string) bool {
	for _, a := range allowed {
		if a == cl || (b.classOf[cl] != "" && (a == b.classOf[cl] || normClass(a) == normClass(b.classOf[cl]))) {
			return true
		}
	}
	// a helper that only applies allowed transformers to its own parameters and hands their results back (two cells
	// decoded together, with a flag): every non-boolean result is, on every return, a constant or the value result of
	// an allowed transformer applied to a parameter
	var named []*ssa.Function
	for _, g := range b.c.P.ModFns {
		if g.Parent() == nil && g.Name() == cl && len(g.Blocks) > 0 && len(g.TypeArgs()) == 0 {
			named = append(named, g)
		}
	}
	if len(named) != 1 {
		return false
	}
	h := named[0]
	isParam := func(v ssa.Value) bool {
		for _, prm := range h.Params {
			if v == ssa.Value(prm) {
				return true
			}
		}
		return false
	}
	var okVal func(v ssa.Value, d int) bool
	okVal = func(v ssa.Value, d int) bool {
		if d > 6 {
			return false
		}
		switch x := v.(type) {
		case *ssa.Const:
			return true
		case *ssa.Phi:
			for _, e := range x.Edges {
				if !okVal(e, d+1) {
					return false
				}
			}
			return true
		case *ssa.Extract:
			call, ok := x.Tuple.(*ssa.Call)
			if !ok || x.Index != 0 {
				return false
			}
			return okVal(call, d+1)
		case *ssa.Call:
			cal := x.Call.StaticCallee()
			if cal == nil || cal == h || len(x.Call.Args) != 1 {
				return false
			}
			if !isParam(x.Call.Args[0]) {
				// the cell of a column object that is a parameter
				rd, isRd := x.Call.Args[0].(*ssa.Call)
				if !isRd || len(rd.Call.Args) != 1 || !isParam(rd.Call.Args[0]) || !strings.HasSuffix(calleeName(rd), "Column).Read") {
					return false
				}
			}
			cls := sigClass(cal)
			for _, a := range allowed {
				if a == cls || normClass(a) == normClass(cls) {
					return true
				}
			}
		}
		return false
	}
	n := 0
	for _, blk := range h.Blocks {
		ret, ok := blk.Instrs[len(blk.Instrs)-1].(*ssa.Return)
		if !ok {
			continue
		}
		for _, r := range ret.Results {
			if shortType(r.Type()) == "bool" {
				continue
			}
			n++
			if !okVal(r, 0) {
				return false
			}
		}
	}
	return n > 0
}

// containsForm: expr contains the form, where a "{class}" placeholder stands for any module function of that class.
func (b *binder) containsForm(expr, form string) bool {
	i := strings.Index(form, "{")
	j := strings.Index(form, "}")
	if i < 0 || j < i {
		return strings.Contains(expr, form)
	}
	cls := form[i+1 : j]
	for n, c := range b.classOf {
		if c == cls && strings.Contains(expr, form[:i]+n+form[j+1:]) {
			return true
		}
	}
	return false
}

// headClass: the signature class of the module function whose call is the outermost form of expr ("" if none).
func (b *binder) headClass(expr string) string {
	i := strings.Index(expr, "(")
	if i <= 0 {
		return ""
	}
	return b.classOf[expr[:i]]
}

// fnsByClass: the named (non-closure) functions among fns with the given signature class.
func fnsByClass(fns []*ssa.Function, class string) []*ssa.Function {
	var out []*ssa.Function
	for _, f := range fns {
		if sigClass(f) == class {
			out = append(out, f)
		}
	}
	return out
}

// globalRef renders a package-level variable: exported ones (API) by name, unexported ones by their type when that
// type is unique among the package's unexported variables (renaming them changes nothing), else by name.
func globalRef(g *ssa.Global) string {
	if g.Object() == nil || g.Object().Exported() || g.Pkg == nil {
		return "global:" + g.Name()
	}
	t := shortType(deref(g.Type()))
	n := 0
	for _, m := range g.Pkg.Members {
		if og, ok := m.(*ssa.Global); ok && og.Object() != nil && !og.Object().Exported() && shortType(deref(og.Type())) == t {
			n++
		}
	}
	if n == 1 {
		return "global:<" + t + ">"
	}
	return "global:" + g.Name()
}

// mapRef names a map in a lookup: package-level tables as globalRef, locals by their source name (for reading) and type.
func mapRef(m ssa.Value) string {
	if ld, ok := m.(*ssa.UnOp); ok {
		if g, ok := ld.X.(*ssa.Global); ok {
			return globalRef(g)
		}
	}
	return describeMapExpr(m) + ":" + shortType(m.Type())
}

// classType prints a type for a signature class: like shortType, but an unexported named type of the module is printed
// as pkg._ (its name is free to change).
func classType(t types.Type) string {
	return classTypeRewrite(t, types.TypeString(t, func(p *types.Package) string { return p.Name() }))
}

func init() {
	// classType needs to rewrite names, which TypeString's qualifier cannot do: post-process
	classTypeRewrite = func(t types.Type, s string) string {
		var names []string
		var walk func(t types.Type, d int)
		walk = func(t types.Type, d int) {
			if d > 6 || t == nil {
				return
			}
			switch x := t.(type) {
			case *types.Named:
				if o := x.Obj(); o.Pkg() != nil && !o.Exported() && strings.HasPrefix(o.Pkg().Path(), modPath) {
					names = append(names, o.Pkg().Name()+"."+o.Name())
				}
			case *types.Pointer:
				walk(x.Elem(), d+1)
			case *types.Slice:
				walk(x.Elem(), d+1)
			case *types.Array:
				walk(x.Elem(), d+1)
			case *types.Map:
				walk(x.Key(), d+1)
				walk(x.Elem(), d+1)
			}
		}
		walk(t, 0)
		for _, n := range names {
			s = strings.ReplaceAll(s, n, n[:strings.Index(n, ".")]+"._")
		}
		return s
	}
}

var classTypeRewrite func(t types.Type, s string) string

// withArgs: a binder for the body of cal in which cal's parameters stand for the given (already bound) arguments.
func (b *binder) withArgs(cal *ssa.Function, args []string) *binder {
	sub := &binder{c: b.c, memo: map[ssa.Value]string{}, busy: map[ssa.Value]bool{}, carriers: b.carriers, fieldSrc: b.fieldSrc, classOf: b.classOf,
		subst: map[*ssa.Parameter]string{}, inlineD: b.inlineD + 1, catForm: b.catForm, structSrc: b.structSrc, structLits: b.structLits, litForm: b.litForm}
	if b.catForm {
		if b.catRaw == nil {
			b.catRaw = map[string][]string{}
		}
		sub.catRaw = b.catRaw
	}
	for i, p := range cal.Params {
		if i < len(args) {
			sub.subst[p] = args[i]
		}
	}
	return sub
}

// atCallSite: a binder for the body of g as seen from its single call site inside the given region (nil if g is not
// called exactly once from there).
func (b *binder) atCallSite(g *ssa.Function, region []*ssa.Function) *binder {
	in := map[*ssa.Function]bool{}
	for _, f := range region {
		in[f] = true
	}
	var site ssa.CallInstruction
	n := 0
	for _, e := range b.c.P.Callers(g) {
		if in[e.Caller] {
			site = e.Site
			n++
		}
	}
	if n != 1 {
		return nil
	}
	var as []string
	for _, a := range site.Common().Args {
		as = append(as, b.bind(a))
	}
	return b.withArgs(g, as)
}

// bindInContext binds value v of function fn with fn's parameters standing for what its callers pass (the union over
// the call sites inside `within`, followed transitively up to three levels): a store that a refactoring moved into a
// helper is then described in the terms of the function it was moved out of.
func (b *binder) bindInContext(fn *ssa.Function, v ssa.Value, within map[*ssa.Function]bool, depth int) string {
	return b.bindInContextT(fn, v, within, depth, "")
}

// bindInContextT: as bindInContext, substituting only the parameters whose type prints as onlyType ("" = all).
func (b *binder) bindInContextT(fn *ssa.Function, v ssa.Value, within map[*ssa.Function]bool, depth int, onlyType string) string {
	var sites []ssa.CallInstruction
	var callers []*ssa.Function
	// a function that reads a file itself (it receives the *csv.File) is where the columns are named: its own
	// parameters (location, id tables) are context, not data
	for _, prm := range fn.Params {
		if shortType(prm.Type()) == "*csv.File" && onlyType == "" {
			return b.bind(v)
		}
	}
	if depth < 3 {
		for _, e := range b.c.P.Callers(fn) {
			if within[e.Caller] && e.Caller != fn {
				sites = append(sites, e.Site)
				callers = append(callers, e.Caller)
			}
		}
	}
	if len(sites) == 0 || len(sites) > 4 || len(fn.Params) == 0 {
		return b.bind(v)
	}
	var as []string
	for i, site := range sites {
		var args []string
		for k, a := range site.Common().Args {
			if onlyType != "" && (k >= len(fn.Params) || shortType(fn.Params[k].Type()) != onlyType) {
				if k < len(fn.Params) {
					args = append(args, paramRef(fn.Params[k])) // left as it is
				} else {
					args = append(args, "?")
				}
				continue
			}
			args = append(args, b.bindInContextT(callers[i], a, within, depth+1, onlyType))
		}
		if len(args) != len(fn.Params) {
			return b.bind(v)
		}
		as = append(as, b.withArgs(fn, args).bind(v))
	}
	return alts(as)
}

// catPartsTop: v is a string built by + or by an all-%s Sprintf (and catForm is on): its flattened parts.
func (b *binder) catPartsTop(v ssa.Value, d int) ([]string, bool) {
	if !b.catForm {
		return nil, false
	}
	switch x := v.(type) {
	case *ssa.BinOp:
		if bt, ok := x.Type().Underlying().(*types.Basic); !ok || bt.Info()&types.IsString == 0 || x.Op != token.ADD {
			return nil, false
		}
	case *ssa.Call:
		if n := calleeName(x); n != "fmt.Sprintf" && n != "strconv.FormatInt" && n != "strconv.Itoa" {
			return nil, false
		}
	default:
		return nil, false
	}
	parts, ok := b.catParts(v, d)
	if !ok {
		return nil, false
	}
	// merge adjacent literals
	var out []string
	lit := ""
	hasLit := false
	flush := func() {
		if hasLit && lit != "" {
			out = append(out, "const:"+strconv.Quote(lit))
		}
		lit, hasLit = "", false
	}
	for _, p := range parts {
		if strings.HasPrefix(p, "\x00lit:") {
			lit += p[len("\x00lit:"):]
			hasLit = true
			continue
		}
		flush()
		out = append(out, p)
	}
	flush()
	if b.catRaw == nil {
		b.catRaw = map[string][]string{}
	}
	b.catRaw["cat["+strings.Join(out, ", ")+"]"] = parts
	return out, true
}

// spliceCat: a bound sub-expression that is itself a cat[...] contributes its parts.
func (b *binder) spliceCat(sub string) []string {
	if raw, ok := b.catRaw[sub]; ok {
		return raw
	}
	return []string{sub}
}

func (b *binder) catParts(v ssa.Value, d int) ([]string, bool) {
	switch x := v.(type) {
	case *ssa.Const:
		if s, ok := constString(x); ok {
			return []string{"\x00lit:" + s}, true
		}
	case *ssa.BinOp:
		if bt, ok := x.Type().Underlying().(*types.Basic); ok && bt.Info()&types.IsString != 0 && x.Op == token.ADD {
			l, ok1 := b.catParts(x.X, d+1)
			if !ok1 {
				l = b.spliceCat(b.bindD(x.X, d+1))
			}
			r, ok2 := b.catParts(x.Y, d+1)
			if !ok2 {
				r = b.spliceCat(b.bindD(x.Y, d+1))
			}
			return append(l, r...), true
		}
	case *ssa.Call:
		switch calleeName(x) {
		case "strconv.Itoa":
			return []string{"dec(" + b.bindD(x.Call.Args[0], d+1) + ")"}, true
		case "strconv.FormatInt":
			if base, isK := constInt(x.Call.Args[1]); isK && base == 10 {
				return []string{"dec(" + b.bindD(x.Call.Args[0], d+1) + ")"}, true
			}
			return nil, false
		}
		if calleeName(x) == "fmt.Sprintf" && len(x.Call.Args) == 2 {
			format, ok := constString(x.Call.Args[0])
			if !ok {
				return nil, false
			}
			elems := variadicElems(x.Call.Args[1])
			// literal text interleaved with %s (strings, verbatim) and %d (integers, decimal)
			var out []string
			lit := ""
			k := 0
			for i := 0; i < len(format); i++ {
				if format[i] != '%' {
					lit += string(format[i])
					continue
				}
				if i+1 >= len(format) || (format[i+1] != 's' && format[i+1] != 'd') || k >= len(elems) {
					return nil, false
				}
				if lit != "" {
					out = append(out, "\x00lit:"+lit)
					lit = ""
				}
				ev := elems[k]
				k++
				if mi, isMI := ev.(*ssa.MakeInterface); isMI {
					ev = mi.X
				}
				bt, isB := ev.Type().Underlying().(*types.Basic)
				if format[i+1] == 's' {
					if !isB || bt.Info()&types.IsString == 0 {
						return nil, false
					}
					sub, ok := b.catParts(ev, d+1)
					if !ok {
						sub = b.spliceCat(b.bindD(ev, d+1))
					}
					out = append(out, sub...)
				} else {
					if !isB || bt.Info()&types.IsInteger == 0 {
						return nil, false
					}
					out = append(out, "dec("+b.bindD(ev, d+1)+")")
				}
				i++
			}
			if k != len(elems) {
				return nil, false
			}
			if lit != "" {
				out = append(out, "\x00lit:"+lit)
			}
			return out, true
		}
	}
	return nil, false
}

// variadicElems: the values of the array literal behind a variadic argument `arr[:]` (nil if not of that form or an
// element is stored more than once).
func variadicElems(v ssa.Value) []ssa.Value {
	sl, ok := v.(*ssa.Slice)
	if !ok {
		return nil
	}
	al := isLocalArrayAlloc(sl.X)
	if al == nil {
		return nil
	}
	at, ok := deref(al.Type()).Underlying().(*types.Array)
	if !ok {
		return nil
	}
	out := make([]ssa.Value, at.Len())
	for _, r := range *al.Referrers() {
		ia, ok := r.(*ssa.IndexAddr)
		if !ok {
			continue
		}
		k, isC := constInt(ia.Index)
		if !isC || k < 0 || k >= at.Len() {
			return nil
		}
		for _, r2 := range *ia.Referrers() {
			if st, ok := r2.(*ssa.Store); ok && st.Addr == ssa.Value(ia) {
				if out[k] != nil {
					return nil
				}
				out[k] = st.Val
			}
		}
	}
	for _, e := range out {
		if e == nil {
			return nil
		}
	}
	return out
}

// readsColumnParam: the column object received as this parameter has its cell read (Read / ReadOr) in the function.
func readsColumnParam(prm *ssa.Parameter) bool {
	if prm.Referrers() == nil {
		return false
	}
	for _, r := range *prm.Referrers() {
		if call, ok := r.(*ssa.Call); ok && len(call.Call.Args) > 0 && call.Call.Args[0] == ssa.Value(prm) {
			n := calleeName(call)
			if strings.HasSuffix(n, "Column).Read") || strings.HasSuffix(n, "Column).ReadOr") {
				return true
			}
		}
	}
	return false
}

// unexportedModuleStruct: a named struct type of the module whose name is not exported (a carrier for values that
// travel together inside one file: its fields are whatever the one literal that builds it puts there).
func unexportedModuleStruct(t types.Type) bool {
	n, ok := t.(*types.Named)
	if !ok || n.Obj().Pkg() == nil || !strings.HasPrefix(n.Obj().Pkg().Path(), modPath) || isProtoPkg(n.Obj().Pkg().Path()) {
		return false
	}
	_, isSt := n.Underlying().(*types.Struct)
	return isSt && !n.Obj().Exported()
}

// sameObjectOrCopy: f(p *T) *T, loop-free, every return of which hands back p itself or the address of a local
// variable that was initialised as a copy of *p.
func sameObjectOrCopy(f *ssa.Function) bool {
	if f == nil || len(f.Blocks) == 0 || len(f.Params) != 1 || f.Signature.Results().Len() != 1 || len(naturalLoops(f)) > 0 {
		return false
	}
	prm := f.Params[0]
	if _, isPtr := prm.Type().Underlying().(*types.Pointer); !isPtr || !types.Identical(prm.Type(), f.Signature.Results().At(0).Type()) {
		return false
	}
	n := 0
	for _, blk := range f.Blocks {
		ret, ok := blk.Instrs[len(blk.Instrs)-1].(*ssa.Return)
		if !ok {
			continue
		}
		n++
		rv := ret.Results[0]
		if rv == ssa.Value(prm) {
			continue
		}
		al, isAl := rv.(*ssa.Alloc)
		if !isAl {
			return false
		}
		copied := false
		for _, sv := range cellStores(al) {
			if ld, isLd := sv.(*ssa.UnOp); isLd && ld.Op == token.MUL && ld.X == ssa.Value(prm) {
				copied = true
			} else {
				return false
			}
		}
		if !copied {
			return false
		}
	}
	return n > 0
}
