#!/bin/sh
# Builds the analyser from files on disk only (offline).
set -e
cd "$(dirname "$0")/checker"
export GOFLAGS=-mod=mod GOPROXY=off GOSUMDB=off GOTOOLCHAIN=local CGO_ENABLED=0
unset GOWORK
mkdir -p ../bin
go build -o ../bin/gtfscheck .
echo "built $(cd .. && pwd)/bin/gtfscheck"
