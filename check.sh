#!/bin/sh
# usage: check.sh <property> [quick|thorough]
# Runs the static analyser for one property against /repo's current working tree.
# The analyser binary is (re)built when missing or older than its sources.
D="$(cd "$(dirname "$0")" && pwd)"
export GOFLAGS=-mod=mod GOPROXY=off GOSUMDB=off GOTOOLCHAIN=local CGO_ENABLED=0
unset GOWORK
if [ ! -x "$D/bin/gtfscheck" ] || [ -n "$(find "$D/checker" -name '*.go' -newer "$D/bin/gtfscheck" 2>/dev/null | head -1)" ]; then
  sh "$D/setup.sh" >/dev/null || { echo "VIOLATION property=$1 replay=$D/setup.sh (analyser failed to build)"; exit 1; }
fi
TIER="${2:-${VERIF_TIER:-quick}}"
exec "$D/bin/gtfscheck" -property "$1" -tier "$TIER" -repo "${VERIF_REPO:-/repo}"
