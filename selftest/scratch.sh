#!/bin/sh
# usage: scratch.sh <patch> <prop> -> applies patch to scratch copy, runs property verbosely, removes the copy
D="$(cd "$(dirname "$0")/.." && pwd)"
export GOFLAGS=-mod=mod GOPROXY=off GOSUMDB=off GOTOOLCHAIN=local
unset GOWORK
S="$(mktemp -d /tmp/gtfs-scr.XXXXXX)"
rsync -a --exclude .git /repo/ "$S/"
PF="$(readlink -f "$1")"; ( cd "$S" && patch -p1 -s --no-backup-if-mismatch < "$PF" ) || { rm -rf "$S"; exit 2; }
mkdir -p "$S/.verif"; cp "$D/known-findings.txt" "$S/.verif/"
shift
for P in "$@"; do VERIF_DIR="$S/.verif" "${BIN:-$D/bin/gtfscheck}" -property "$P" -tier quick -repo "$S" 2>&1 | grep -v '^KNOWN-FINDING' | sed "s#$S/##g"; done
rm -rf "$S"
