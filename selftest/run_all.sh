#!/bin/sh
# Development tool: runs every seeded change (seeded/<id>/patch.diff) and every pre-fix reverse patch
# (selftest/prefix/*.patch) against the checks of its property and prints one line per change.
# Each change is applied to its own scratch copy of /repo under /tmp, which is removed afterwards.
D="$(cd "$(dirname "$0")/.." && pwd)"
export GOFLAGS=-mod=mod GOPROXY=off GOSUMDB=off GOTOOLCHAIN=local CGO_ENABLED=0
unset GOWORK
run_one() { # patch, label, props...
  PATCH="$1"; LABEL="$2"; shift 2
  S="$(mktemp -d /tmp/gtfs-all.XXXXXX)"
  rsync -a --exclude .git /repo/ "$S/"
  if ! ( cd "$S" && patch -p1 -s --no-backup-if-mismatch < "$PATCH" ) >/dev/null 2>&1; then echo "$LABEL: PATCH-DOES-NOT-APPLY"; rm -rf "$S"; return; fi
  if ! ( cd "$S" && go build ./... ) >/dev/null 2>&1; then echo "$LABEL: BUILD-FAIL"; rm -rf "$S"; return; fi
  mkdir -p "$S/.verif"; cp "$D/known-findings.txt" "$S/.verif/"
  RES=""
  for P in "$@"; do
    OUT="$(VERIF_DIR="$S/.verif" "${BIN:-$D/bin/gtfscheck}" -property "$P" -tier quick -repo "$S" 2>&1)"
    if echo "$OUT" | grep -q '^VIOLATION'; then
      RULES="$(echo "$OUT" | grep -E '^    rule ' | sed 's/^    rule \([A-Za-z0-9]*\) in .*/\1/' | sort -u | tr '\n' ',' | sed 's/,$//')"
      RES="$RES $P:CAUGHT[$RULES]"
    else RES="$RES $P:missed"; fi
  done
  echo "$LABEL:$RES"
  rm -rf "$S"
}
MODE="${1:-seeds}"
if [ "$MODE" = "seeds" ] || [ "$MODE" = "all" ]; then
  for dir in "$D"/seeded/C*-*; do
    [ -f "$dir/patch.diff" ] || continue
    id="$(basename "$dir")"; prop="${id%%-*}"
    run_one "$dir/patch.diff" "seed $id" "$prop"
  done
fi
if [ "$MODE" = "prefix" ] || [ "$MODE" = "all" ]; then
  while read h rest; do
    f="$D/selftest/prefix/$h.patch"; [ -f "$f" ] || continue
    props="$(grep "$h" "$D/known-findings.txt" | grep -o 'property=C[0-9]*' | cut -d= -f2 | sort -u | tr '\n' ' ')"
    case "$rest" in props=*) props="$(echo "$rest" | sed 's/^props=\([A-Z0-9,]*\).*/\1/' | tr ',' ' ')";; esac
    [ -n "$props" ] || props="C05"
    run_one "$f" "prefix $h ($(echo $rest | cut -c1-50))" $props
  done < "$D/selftest/prefix/INDEX.txt"
fi
if [ "$MODE" = "benign" ] || [ "$MODE" = "all" ]; then
  "$D/selftest/run_benign.sh"
fi
if [ "$MODE" = "negatives" ] || [ "$MODE" = "all" ]; then
  "$D/selftest/negatives.sh"
fi
