#!/bin/sh
# usage: import_seed.sh <src dir with patch.diff, demo file(s), demo_cmd.txt, meta.json> <seed id, e.g. C13-a> <property> [more properties to run]
# Confirms, in a scratch copy of /repo (removed afterwards): patch applies, library builds, existing suite passes,
# demo FAILS with the change and PASSES without it.  Then runs the given checks against the patched copy and
# records everything in /verif/seeded/<seed id>/.
SRC="$1"; ID="$2"; shift 2
D="$(cd "$(dirname "$0")/.." && pwd)"
export GOFLAGS=-mod=mod GOPROXY=off GOSUMDB=off GOTOOLCHAIN=local
unset GOWORK
S="$(mktemp -d /tmp/gtfs-seed.XXXXXX)"
trap 'rm -rf "$S"' EXIT
rsync -a --exclude .git /repo/ "$S/"
DEMO_CMD="$(grep -E '^\s*go (test|run)' "$SRC/demo_cmd.txt" | head -1)"
[ -n "$DEMO_CMD" ] || DEMO_CMD="$(grep -oE 'go (test|run)[^`]*' "$SRC/demo_cmd.txt" | head -1)"
# place demo files: every *_test.go / *.go in SRC goes to the path named in demo_cmd.txt if given, else repo root
place_demo() {
  for f in "$SRC"/*.go; do
    [ -e "$f" ] || continue
    base="$(basename "$f")"
    dest="$(grep -oE '[A-Za-z0-9_/.-]*'"$base" "$SRC/demo_cmd.txt" | grep / | head -1)"
    case "$dest" in /tmp/wt-*/*) dest="${dest#/tmp/wt-*/}"; dest="$(echo "$dest" | sed 's#^[^/]*/##')";; esac
    [ -n "$dest" ] || dest="$base"
    dest="$(echo "$dest" | sed 's#^\./##')"
    mkdir -p "$S/$(dirname "$dest")"; cp "$f" "$S/$dest"; echo "$dest"
  done
}
RES="$D/seeded/$ID"; mkdir -p "$RES"
{
echo "seed $ID from $SRC"
( cd "$S" && git init -q . 2>/dev/null; git -C "$S" apply --check "$SRC/patch.diff" ) 2>&1 || { echo "APPLY FAIL"; exit 2; }
# clean tree + demo: must pass
PLACED="$(place_demo)"
echo "demo placed at: $PLACED ; demo cmd: $DEMO_CMD"
( cd "$S" && eval "$DEMO_CMD" ) >"$S/.demo_clean.out" 2>&1 && echo "DEMO on clean tree: PASS" || { echo "DEMO on clean tree: FAIL (should pass)"; tail -5 "$S/.demo_clean.out"; }
git -C "$S" apply "$SRC/patch.diff" || { echo "APPLY FAIL"; exit 2; }
( cd "$S" && go build ./... ) >/dev/null 2>&1 && echo "BUILD ok" || echo "BUILD FAIL"
( cd "$S" && eval "$DEMO_CMD" ) >"$S/.demo_mut.out" 2>&1 && echo "DEMO with change: PASS (should fail)" || echo "DEMO with change: FAIL (as intended)"
for f in $PLACED; do rm -f "$S/$f"; done
( cd "$S" && go test -vet=off -count=1 ./... ) >"$S/.suite.out" 2>&1 && echo "EXISTING SUITE with change: ok" || { echo "EXISTING SUITE with change: FAIL"; grep -E '^(--- FAIL|FAIL)' "$S/.suite.out" | head; }
for P in "$@"; do
  mkdir -p "$S/.verif"; cp "$D/known-findings.txt" "$S/.verif/" 2>/dev/null
  OUT="$(VERIF_DIR="$S/.verif" "${BIN:-$D/bin/gtfscheck}" -property "$P" -tier quick -repo "$S" 2>&1)"
  if echo "$OUT" | grep -q '^VIOLATION'; then
    echo "CHECK $P: CAUGHT"; echo "$OUT" | grep -E '^(VIOLATED|UNDECIDED|ANALYSER)' -A2 | grep -v '^VIOLATION' | head -12
  else
    echo "CHECK $P: MISSED"; echo "$OUT" | tail -1
  fi
done
} 2>&1 | tee "$RES/verification.log"
cp "$SRC/patch.diff" "$RES/patch.diff"; cp "$SRC"/*.go "$RES/" 2>/dev/null; cp "$SRC/demo_cmd.txt" "$RES/" 2>/dev/null; cp "$SRC/meta.json" "$RES/meta.json" 2>/dev/null
