#!/bin/sh
# Development tool: "broken twins" of benign refactorings. Each case applies a behaviour-preserving patch of
# selftest/benign/ and then breaks one detail of the *new* structure (the part a generalised rule now has to look
# through: a helper, a method of a small type, a predicate). The named check must report a violation; this guards the
# repairs of false alarms against having made a rule too tolerant. Usage: negatives.sh   (prints one line per case)
D="$(cd "$(dirname "$0")/.." && pwd)"
export GOFLAGS=-mod=mod GOPROXY=off GOSUMDB=off GOTOOLCHAIN=local
unset GOWORK
neg() { # label, benign patch, perl substitution, file, properties...
  LABEL="$1"; L="$2"; SUB="$3"; F="$4"; shift 4
  S="$(mktemp -d /tmp/gtfs-neg.XXXXXX)"
  rsync -a --exclude .git /repo/ "$S/"
  ( cd "$S" && patch -p1 -s --no-backup-if-mismatch < "$D/selftest/benign/$L.patch" ) >/dev/null 2>&1 || { echo "negative $LABEL: PATCH-DOES-NOT-APPLY"; rm -rf "$S"; return; }
  cp "$S/$F" "$S/.before"
  perl -0pi -e "$SUB" "$S/$F"
  if cmp -s "$S/$F" "$S/.before"; then echo "negative $LABEL: SUBSTITUTION-DID-NOT-MATCH"; rm -rf "$S"; return; fi
  rm -f "$S/.before"
  ( cd "$S" && go build ./... ) >/dev/null 2>&1 || { echo "negative $LABEL: BUILD-FAIL"; rm -rf "$S"; return; }
  mkdir -p "$S/.verif"; cp "$D/known-findings.txt" "$S/.verif/"
  RES=""
  for P in "$@"; do
    if VERIF_DIR="$S/.verif" "${BIN:-$D/bin/gtfscheck}" -property "$P" -tier quick -repo "$S" 2>&1 | grep -q '^VIOLATION'; then RES="$RES $P:CAUGHT"; else RES="$RES $P:missed"; fi
  done
  echo "negative $LABEL ($L):$RES"
  rm -rf "$S"
}
neg "cursor answers true without a trip"       r11-1-4 's/if c\.trip != nil && c\.tripID == tripID \{/if c.tripID == tripID {/' static.go C05
neg "cursor remembers the key of a failed lookup" r11-1-4 's/if thisTrip == nil \{\n\t\treturn false/if thisTrip == nil {\n\t\tc.tripID = tripID\n\t\treturn false/' static.go C03 C09
neg "observe does not store the new trip"      r12-3-1 's/\t\ttrips\[tripUID\] = trip\n//' journal/journal.go C05 C15
neg "front name taken without a guard"         r11-3-3 's/for len\(s\.fileNames\) > 0 \{/for s.startLen >= 0 {/' journal/journal.go C05 C19
neg "mark-all helper skips the first element"  r12-3-6 's/for i := range stopTimes \{\n\t\tstopTimes\[i\]\.markPast/for i := 1; i < len(stopTimes); i++ {\n\t\tstopTimes[i].markPast/' journal/journal.go C14 C15
neg "new service gets only a start date"       r11-1-3 's/\t\tservice\.StartDate = date\n\t\tservice\.EndDate = date\n\t\treturn/\t\tservice.StartDate = date\n\t\treturn/' static.go C11
neg "counting helper goes on after a mismatch" r11-3-5 's/\t\t\tbreak\n\t\t\}\n\t\tn\+\+/\t\t\tn++\n\t\t\tcontinue\n\t\t}\n\t\tn++/' journal/journal.go C14
neg "fallback helper ignores the informed set" r12-5-1 's/\t\tif skip\[routeID\] \{\n\t\t\tcontinue\n\t\t\}\n//' realtime.go C12
neg "selection predicate keeps unassigned trips" r11-3-2 's/\treturn trip\.IsAssigned\n/\treturn true\n/' journal/journal.go C15
neg "listing helper does not sort"             r12-3-4 's/\tsort\.Strings\(fileNames\)\n\treturn fileNames/\treturn fileNames/' journal/journal.go C19
neg "day flags read from the next column"      r12-5-5 's/c\[i\]\.Read\(\)/c[(i+1)%7].Read()/' static.go C01
neg "carrier struct built with two cells swapped" r12-1-4 's/startTime:   startTimeColumn\.Read\(\),\n(\s*)endTime:     endTimeColumn\.Read\(\),/startTime:   endTimeColumn.Read(),\n$1endTime:     startTimeColumn.Read(),/' static.go C01
neg "row constructor swaps latitude and longitude" r11-5-3 's/ShapePtLat:        \*shapePtLat,\n(\s*)ShapePtLon:        \*shapePtLon,/ShapePtLat:        *shapePtLon,\n$1ShapePtLon:        *shapePtLat,/' static.go C01
neg "merge table called with another id"       r11-2-2 's/vehiclesByID\.merge\(\*vehicle\.ID, \*vehicle\)/vehiclesByID.merge(VehicleID{ID: vehicle.ID.ID}, *vehicle)/' realtime.go C07
neg "numbers filled from the groups in reverse" r11-5-6 's/match\[i\+1\]/match[3-i]/' realtime.go C02
neg "membership predicate admits an undeclared value" r11-1-6 's/RouteType_Monorail:/RouteType_Monorail, RouteType(9):/' enums.go C12
neg "stop time helper handed another extension" r11-2-1 's/parseStopTimeUpdate\(stopTimeUpdate, timezone, opts\.Extension\)/parseStopTimeUpdate(stopTimeUpdate, timezone, extensions.NoExtension())/' realtime.go C02
neg "options helper builds its copy without the timezone" r12-2-4 's/optsCopy := \*opts\n/optsCopy := ParseRealtimeOptions{}\n/' realtime.go C02
neg "dispatcher leaves the vehicle of a trip update out" r13-2-3 's/\t\ttrip, vehicle, ok := parseTripUpdate\(entity\.TripUpdate, opts\)\n\t\treturn parsedEntity\{trip: trip, vehicle: vehicle\}, ok/\t\ttrip, _, ok := parseTripUpdate(entity.TripUpdate, opts)\n\t\treturn parsedEntity{trip: trip}, ok/' realtime.go C04 C07
neg "dispatcher form: id-bearing vehicle reaches the unkeyed list" r13-2-3 's/if vehicle\.ID != nil \{\n\t\t\t\tif _, ok := vehiclesByID/if vehicle.ID != nil \&\& vehicle.ID.ID != "" {\n\t\t\t\tif _, ok := vehiclesByID/' realtime.go C07
neg "tracker never replaces the set of active trips" r13-3-6 's/\tt\.active = newActive\n/\t_ = newActive\n/' journal/journal.go C15
neg "tracker deletes finished trips from its table" r13-3-6 's/\t\t\tt\.trips\[tripUID\]\.markPast\(createdAt\)\n/\t\t\tt.trips[tripUID].markPast(createdAt)\n\t\t\tif len(t.trips) > 1000000 {\n\t\t\t\tdelete(t.trips, tripUID)\n\t\t\t}\n/' journal/journal.go C05
neg "inheritance predicate forgets the parent test" r14-1-2 's/return stop\.Parent != nil \&\&\n\t\tstop\.Parent\.Type == StopType_Station \&\&\n\t\tstop\.WheelchairBoarding == WheelchairBoarding_NotSpecified/return stop.WheelchairBoarding == WheelchairBoarding_NotSpecified/' static.go C05 C10
neg "pair helper leaves the missing departure at zero" r14-1-3 's/return stopTimePair\{arrival: arrival, departure: arrival\}, true/return stopTimePair{arrival: arrival}, true/' static.go C10
neg "fill helper answers the invalid departure"  r14-5-2 's/return arrival, arrival, true/return arrival, departure, true/' static.go C10
neg "caller stores the pair's fields crosswise"  r14-1-3 's/ArrivalTime:           times\.arrival,/ArrivalTime:           times.departure,/' static.go C10
neg "swapped-result start time in milliseconds"   r15-2-1 's/\) \* time\.Second, true/) * time.Millisecond, true/' realtime.go C02
neg "swapped-result start time rejects late hours" r15-2-1 's/\th, _ := strconv\.Atoi\(startTimeMatch\[1\]\)\n/\th, _ := strconv.Atoi(startTimeMatch[1])\n\tif h > 23 {\n\t\treturn 0, false\n\t}\n/' realtime.go C04 C12
neg "date helper with a flag reads day before month" r15-1-3 's/const gtfsDateLayout = "20060102"/const gtfsDateLayout = "20060201"/' static.go C01 C11
neg "missing-columns predicate answers the wrong way" r15-1-4 's/\tif missing == nil \{\n\t\treturn false\n\t\}\n\tfmt\.Println\(missing\)\n\treturn true/\tif missing != nil {\n\t\treturn false\n\t}\n\tfmt.Println(missing)\n\treturn true/' static.go C05
neg "route type table maps 3 to rail"             r15-1-5 's/"3":  RouteType_Bus,/"3":  RouteType_Rail,/' enums.go C01
neg "options method converts in UTC"              r15-2-6 's/return time\.Unix\(seconds, 0\)\.In\(opts\.timezoneOrUTC\(\)\)/return time.Unix(seconds, 0).UTC()/' realtime.go C02
neg "optional converter of the options fabricates a time" r15-2-6 's/\tif in == nil \{\n\t\treturn nil\n\t\}\n\tout := opts\.unixTime/\tif in == nil {\n\t\tin = new(uint64)\n\t}\n\tout := opts.unixTime/' realtime.go C02
neg "generic value-or-zero answers a blank for a present value" r15-3-5 's/\tif p == nil \{\n\t\tvar zero T\n\t\treturn zero\n\t\}\n\treturn \*p/\tvar zero T\n\tif p == nil {\n\t\treturn zero\n\t}\n\t_ = *p\n\treturn zero/' journal/journal.go C20
neg "pop helper answers the last name"            r15-3-6 's/filepath\.Join\(s\.baseDir, s\.fileNames\[0\]\)\n\ts\.fileNames = s\.fileNames\[1:\]\n\treturn filePath, true/filepath.Join(s.baseDir, s.fileNames[len(s.fileNames)-1])\n\ts.fileNames = s.fileNames[1:]\n\treturn filePath, true/' journal/journal.go C19
neg "read helper parses without the bytes it read" r15-3-6 's/return gtfs\.ParseRealtime\(b, /return gtfs.ParseRealtime(b[:0], /' journal/journal.go C19
neg "id setter keeps a position's own descriptor"  r15-4-1 's/(case \*gtfsrt\.VehiclePosition:\n\t\tif t\.Vehicle != nil \{\n)/$1\t\t\treturn\n/' extensions/nycttrips/nycttrips.go C04 C07 C16
neg "caller of the stale test asks about assigned trips" r15-4-2 's/e\.opts\.FilterStaleUnassignedTrips && !isAssigned && isStaleTrip/e.opts.FilterStaleUnassignedTrips \&\& isAssigned \&\& isStaleTrip/' extensions/nycttrips/nycttrips.go C16
neg "pairing helper has no room test"              r15-3-4 's/\t\tif i >= len\(updates\) \{\n\t\t\tbreak\n\t\t\}\n//' journal/journal.go C05
neg "pairing helper pairs copies of the entries"   r15-3-4 's/\t\tstopTime := &stopTimes\[i\]\n/\t\tentry := stopTimes[i]\n\t\tstopTime := \&entry\n/' journal/journal.go C14
neg "range guard with After the wrong way round" r18-4-2 's/if service\.StartDate\.After\(date\) \{/if date.After(service.StartDate) {/' static.go C11
neg "window predicate with After the wrong way round" r18-5-1 's/tooLate := trip\.StartTime\.After\(endTime\)/tooLate := endTime.After(trip.StartTime)/' journal/journal.go C14
neg "named inheritance guard also tests the stop's own type" r18-4-3 's/hasStationParent := stop\.Parent != nil && stop\.Parent\.Type == StopType_Station/hasStationParent := stop.Parent != nil \&\& stop.Parent.Type == StopType_Station \&\& stop.Type == StopType_Platform/' static.go C10
neg "negated presence marker without the negation" r18-1-2 's/h\.number\(!hasTrip\)\n\tif hasTrip \{/h.number(true)\n\tif hasTrip {/' hash.go C13
