#!/bin/sh
# Development tool: applies each behaviour-preserving refactoring in selftest/benign/ to a scratch copy of
# /repo, checks that it builds and the suite passes, and runs all twenty checks on it in one process.
# Any VIOLATION here is a false alarm of a rule. Usage: run_benign.sh [pattern]
D="$(cd "$(dirname "$0")/.." && pwd)"
export GOFLAGS=-mod=mod GOPROXY=off GOSUMDB=off GOTOOLCHAIN=local
unset GOWORK
for f in "$D"/selftest/benign/${1:-*}.patch; do
  [ -f "$f" ] || continue
  L="$(basename "$f" .patch)"
  S="$(mktemp -d /tmp/gtfs-benign.XXXXXX)"
  rsync -a --exclude .git /repo/ "$S/"
  if ! ( cd "$S" && patch -p1 -s --no-backup-if-mismatch < "$f" ) >/dev/null 2>&1; then echo "benign $L: PATCH-DOES-NOT-APPLY"; rm -rf "$S"; continue; fi
  if ! ( cd "$S" && go build ./... ) >/dev/null 2>&1; then echo "benign $L: BUILD-FAIL"; rm -rf "$S"; continue; fi
  if [ -z "$SKIP_TESTS" ] && ! ( cd "$S" && go test -vet=off -count=1 ./... ) >/dev/null 2>&1; then echo "benign $L: SUITE-FAIL"; rm -rf "$S"; continue; fi
  mkdir -p "$S/.verif"; cp "$D/known-findings.txt" "$S/.verif/"
  OUT="$(VERIF_DIR="$S/.verif" "${BIN:-$D/bin/gtfscheck}" -property all -tier quick -repo "$S" 2>&1)"
  V="$(echo "$OUT" | grep '^VIOLATION' | sed 's/^VIOLATION property=\(C[0-9]*\).*/\1/' | sort -u | tr '\n' ' ')"
  if [ -n "$V" ]; then
    echo "benign $L: FALSE-ALARM $V"
    echo "$OUT" | grep -E 'VIOLATED|UNDECIDED|ANALYSER' | grep -v '^KNOWN-FINDING' | sed 's/^/      /' | cut -c1-400
  else echo "benign $L: quiet"; fi
  rm -rf "$S"
done
