#!/bin/sh
# usage: run_mutant.sh <patch.diff> <property> [more properties...]
# Development tool (not a registered check): applies one mutant patch to a scratch copy of /repo
# (outside /repo and /verif), verifies it builds and passes the baseline suite, runs the given
# checks against the copy and removes the copy again.
# Prints: BUILD ok|FAIL, TESTS ok|FAIL, and for each property CAUGHT|MISSED.
PATCH="$1"; shift
D="$(cd "$(dirname "$0")/.." && pwd)"
export GOFLAGS=-mod=mod GOPROXY=off GOSUMDB=off GOTOOLCHAIN=local CGO_ENABLED=0
unset GOWORK
S="$(mktemp -d /tmp/gtfs-mut.XXXXXX)"
trap 'rm -rf "$S"' EXIT
rsync -a --exclude .git /repo/ "$S/"
( cd "$S" && patch -p1 -s < "$PATCH" ) || { echo "PATCH does not apply: $PATCH"; exit 2; }
( cd "$S" && go build ./... ) >/dev/null 2>"$S/.build.err" || { echo "BUILD FAIL"; head -5 "$S/.build.err"; exit 3; }
echo "BUILD ok"
if ( cd "$S" && go test -vet=off -count=1 ./... ) >"$S/.test.out" 2>&1; then echo "TESTS ok"; else echo "TESTS FAIL"; grep -E '^(--- FAIL|FAIL)' "$S/.test.out" | head -5; fi
for P in "$@"; do
  mkdir -p "$S/.verif"; cp "$D/known-findings.txt" "$S/.verif/" 2>/dev/null
  OUT="$(VERIF_DIR="$S/.verif" "$D/bin/gtfscheck" -property "$P" -tier quick -repo "$S" 2>&1)"
  if echo "$OUT" | grep -q '^VIOLATION'; then
    echo "$P CAUGHT"; echo "$OUT" | grep -E '^(VIOLATED|UNDECIDED|ANALYSER)' -A2 | grep -v '^VIOLATION' | head -${MUT_LINES:-8}
  else
    echo "$P MISSED"; echo "$OUT" | tail -2
  fi
done
